//! Harnesses attached as a child module of searchlite-core/src/query/wand.rs:
//! the pruning executor END TO END (C09, C13, C20) — the real
//! `execute_top_k_with_stats_and_mode_internal` → `TermState::new` → `wand_loop` →
//! `push_top_k` / `finalize_heap`, compared with an exhaustive reference computed in
//! the harness.  The two `std::collections::BinaryHeap`s of `wand_loop` are replaced
//! by the fixed-capacity priority-queue model of /verif/models (declared rewrite,
//! DESIGN 8.8): with std's heap the sift positions depend on symbolic keys and CBMC
//! does not terminate.
//@@ crate: searchlite-core
//@@ attach: searchlite-core/src/query/wand.rs
//@@ requires: postings_support.rs
//@@ rewrite: searchlite-core/src/query/wand.rs :: use std::collections::BinaryHeap; ==> use crate::verif_models::{BinaryHeap, SeqVec};
//@@ rewrite: searchlite-core/src/query/wand.rs :: terms: Vec<TermState>, ==> terms: SeqVec<TermState>,
//@@ rewrite: searchlite-core/src/query/wand.rs :: let states: Vec<TermState> = terms ==> let states: SeqVec<TermState> = terms
//@@ rewrite: searchlite-core/src/query/wand.rs :: let mut pending: Vec<TermWrapper> = Vec::with_capacity(queue.len()); ==> let mut pending: SeqVec<TermWrapper> = SeqVec::with_capacity(queue.len());
//@@ rewrite: searchlite-core/src/query/wand.rs :: out.sort_by(|a, b| { ==> crate::verif_models::sort_by(&mut out, |a, b| {
use super::*;
use crate::index::postings::verif_postings_support::reader_from;
use crate::index::postings::PostingEntry;
use crate::query::collector::DocCollector;
use smallvec::SmallVec;

/// Monotone, integer-valued surrogate for BM25 (CBMC's `ln` is nondeterministic):
/// increasing in tf, decreasing in the document length.  All sums of such scores are
/// exact in f32, so the order in which the executor adds term contributions cannot
/// matter.
fn bm25_surrogate(tf: f32, _df: f32, doc_len: f32, _avgdl: f32, _docs: f32, _k1: f32, _b: f32) -> f32 {
  tf * 16.0 - doc_len
}

fn posting(doc: DocId, tf: u32) -> PostingEntry {
  PostingEntry {
    doc_id: doc,
    term_freq: tf,
    positions: SmallVec::new(),
  }
}

fn any_tf() -> u32 {
  let t: u32 = kani::any();
  kani::assume(t >= 1 && t <= 3);
  t
}

fn term(entries: Vec<PostingEntry>, max_tf: u32, leaf: usize) -> ScoredTerm {
  ScoredTerm {
    postings: reader_from(entries, max_tf as f32, 128),
    weight: 1.0,
    avgdl: 8.0,
    docs: 10.0,
    k1: 0.9,
    b: 0.4,
    leaf,
    doc_lengths: None,
  }
}

/// Score of one posting under the surrogate with doc_lengths = None (doc_len = avgdl = 8).
fn s(tf: u32) -> f32 {
  (tf as f32) * 16.0 - 8.0
}

fn max3(a: u32, b: u32, c: u32) -> u32 {
  let m = if a > b { a } else { b };
  if m > c {
    m
  } else {
    c
  }
}

#[derive(Clone, Copy)]
struct Want {
  doc: DocId,
  score: f32,
}

/// Exhaustive top-2 of 4 candidate documents (None = the document matches no term or
/// was rejected) in (score descending, doc id ascending) order.
fn top2(c: &[Option<f32>; 4]) -> (Option<Want>, Option<Want>) {
  let mut first: Option<Want> = None;
  let mut second: Option<Want> = None;
  let mut d = 0usize;
  while d < 4 {
    if let Some(sc) = c[d] {
      let cand = Want { doc: d as DocId, score: sc };
      let beats_first = match first {
        None => true,
        Some(f) => sc > f.score,
      };
      if beats_first {
        second = first;
        first = Some(cand);
      } else {
        let beats_second = match second {
          None => true,
          Some(f) => sc > f.score,
        };
        if beats_second {
          second = Some(cand);
        }
      }
    }
    d += 1;
  }
  (first, second)
}

fn check_top(out: &Vec<RankedDoc>, c: &[Option<f32>; 4], k: usize) {
  let (w1, w2) = top2(c);
  let want_len = {
    let mut n = 0usize;
    if w1.is_some() && k >= 1 {
      n += 1;
    }
    if w2.is_some() && k >= 2 {
      n += 1;
    }
    n
  };
  assert!(out.len() == want_len, "C09: the pruned strategy returns a different number of hits than exhaustive scoring");
  if want_len >= 1 {
    let w = w1.unwrap();
    assert!(out[0].doc_id == w.doc, "C09: the pruned strategy returns a different top hit than exhaustive scoring");
    assert!(out[0].score == w.score, "C09: the pruned strategy returns a different top score than exhaustive scoring");
  }
  if want_len >= 2 {
    let w = w2.unwrap();
    assert!(out[1].doc_id == w.doc, "C09: the pruned strategy returns a different second hit than exhaustive scoring");
    assert!(out[1].score == w.score, "C09: the pruned strategy returns a different second score than exhaustive scoring");
  }
}

struct NoCollector;
impl DocCollector for NoCollector {
  fn collect(&mut self, _d: DocId, _s: f32) {}
}

/// Layout L31: term A has postings for docs 0,1,2 and term B one posting for doc 3.
fn layout_31(strategy: ExecutionStrategy, block: usize, k: usize) {
  let (a0, a1, a2, b3) = (any_tf(), any_tf(), any_tf(), any_tf());
  let mut pa = Vec::with_capacity(3);
  pa.push(posting(0, a0));
  pa.push(posting(1, a1));
  pa.push(posting(2, a2));
  let mut pb = Vec::with_capacity(1);
  pb.push(posting(3, b3));
  let mut terms = SeqVec::new();
  terms.push(TermState::new(term(pa, max3(a0, a1, a2), 0), block));
  terms.push(TermState::new(term(pb, b3, 1), block));
  let mut accept = |_d: DocId, _s: f32| true;
  let out = wand_loop(
    terms,
    k,
    k > 0,
    matches!(strategy, ExecutionStrategy::Bmw),
    None,
    &mut accept,
    None::<&mut NoCollector>,
    None,
    None,
  );
  let c = [Some(s(a0)), Some(s(a1)), Some(s(a2)), Some(s(b3))];
  check_top(&out, &c, k);
  kani::cover!(a2 > a0 && a0 > a1, "the best document sits behind a low-scoring posting of the same term");
  std::mem::forget(out);
}

//@ props: C09
//@ tier: quick
//@ funcs: query::wand::execute_top_k_with_stats_and_mode_internal, wand_loop, TermState::new, build_block_meta, TermState::block_upper_bound, TermState::upper_bound, TermState::skip_to_block, TermState::advance_to, TermState::advance, TermState::score_current, score_tf, push_top_k, finalize_heap
//@ symbolic: term frequencies (1..3) of every posting; layout: term A = docs {0,1,2}, term B = doc {3}; strategy bmw, block size 1, k = 1
//@ bounds: 2 terms, 4 postings, k = 1, block size 1, unwind 8
//@ oracle: the ranked output (documents, order, scores) equals the exhaustive top-k computed in the harness from the same postings (score = sum of per-term scores; ties by smaller doc id)
//@ assumes: bm25 replaced by a monotone integer-valued surrogate (tf*16 - doc_len); std BinaryHeap replaced by the linear priority-queue model (/verif/models); doc_lengths = None
//@ outside: real BM25 numerics, long posting lists, symbolic doc ids
#[kani::proof]
#[kani::unwind(8)]
#[kani::stub(crate::query::bm25::bm25, bm25_surrogate)]
fn c09_bmw_equals_exhaustive_l31_k1() {
  layout_31(ExecutionStrategy::Bmw, 1, 1);
}

/// One term with postings for docs 0 and 1, a score hook (what function_score /
/// script_score / rank_feature install) that multiplies the score of document d by
/// a symbolic factor 1 or 4, k = 1.
fn hook_1x2(use_block_bounds: bool, block: usize) {
  let (a0, a1) = (any_tf(), any_tf());
  let big0: bool = kani::any();
  let big1: bool = kani::any();
  let f = [if big0 { 4.0_f32 } else { 1.0 }, if big1 { 4.0_f32 } else { 1.0 }];
  let mut pa = Vec::with_capacity(2);
  pa.push(posting(0, a0));
  pa.push(posting(1, a1));
  let mut terms = SeqVec::new();
  terms.push(TermState::new(term(pa, if a0 > a1 { a0 } else { a1 }, 0), block));
  let mut accept = |_d: DocId, _s: f32| true;
  let mut adj = |d: DocId, sc: f32, _l: &[f32]| -> Option<f32> { Some(sc * f[d as usize]) };
  let adj_ref: &mut ScoreAdjustFn<'_> = &mut adj;
  let out = wand_loop(
    terms,
    1,
    true,
    use_block_bounds,
    None,
    &mut accept,
    None::<&mut NoCollector>,
    None,
    Some(adj_ref),
  );
  let c = [Some(s(a0) * f[0]), Some(s(a1) * f[1]), None, None];
  check_top(&out, &c, 1);
  kani::cover!(big1 && !big0 && a1 > a0, "the boosted document is the better one");
  std::mem::forget(out);
}

//@ props: C09
//@ tier: quick
//@ funcs: query::wand::wand_loop (score_adjust hook), TermState::new, TermState::upper_bound, TermState::score_current, push_top_k, finalize_heap
//@ symbolic: term frequencies (1..3) of two postings of one term; a score hook multiplying each document's score by a symbolic factor 1 or 4; strategy wand; k = 1
//@ bounds: 1 term, 2 postings, k = 1, unwind 6
//@ oracle: the ranked output equals the exhaustive top-1 of the ADJUSTED scores (what the exhaustive bm25 strategy returns for function_score / script_score / rank_feature queries)
//@ assumes: bm25 replaced by a monotone integer-valued surrogate; std BinaryHeap / the two term-state Vecs replaced by the fixed-capacity models of /verif/models
#[kani::proof]
#[kani::unwind(4)]
#[kani::stub(crate::query::bm25::bm25, bm25_surrogate)]
fn c09_wand_score_hook_equals_exhaustive_1x2() {
  hook_1x2(false, 128);
}
