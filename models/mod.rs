//! Container models (DESIGN 2.2): Vec-backed, API-compatible stand-ins for
//! `std::collections::HashMap` / `HashSet` used ONLY in the verification build
//! (fixed capacity, linear search),
//! in the files listed by `//@@ rewrite:` lines of the harness files.  Hash
//! tables are out of reach for CBMC (SipHash + random keys + probing); these
//! models implement the same finite-map semantics with linear search.
//! Iteration order is insertion order (the real one is hash order): code whose
//! result depends on iteration order is outside what they can show.
#![allow(dead_code)]

use std::borrow::Borrow;

/// Capacity of the model map.  The entries live INLINE in the struct (a fixed
/// array), not in a heap Vec: CBMC keeps enum payloads of stack objects constant
/// but loses them for heap objects, after which every lookup is explored for
/// every variant of the stored enum (measured: the same harness goes from a
/// 900 s timeout to seconds).
pub const CAP: usize = 6;

#[derive(Clone, Debug)]
pub struct HashMap<K, V> {
  items: [Option<(K, V)>; CAP],
  len: usize,
}

impl<K, V> Default for HashMap<K, V> {
  fn default() -> Self {
    HashMap {
      items: [None, None, None, None, None, None],
      len: 0,
    }
  }
}

fn split<'b, K, V>(kv: &'b Option<(K, V)>) -> Option<(&'b K, &'b V)> {
  match kv {
    Some((k, v)) => Some((k, v)),
    None => None,
  }
}

impl<K: Eq, V> HashMap<K, V> {
  pub fn new() -> Self {
    Self::default()
  }

  pub fn with_capacity(_n: usize) -> Self {
    Self::default()
  }

  pub fn len(&self) -> usize {
    self.len
  }

  pub fn is_empty(&self) -> bool {
    self.len == 0
  }

  fn position<Q: ?Sized + Eq>(&self, k: &Q) -> Option<usize>
  where
    K: Borrow<Q>,
  {
    let mut i = 0;
    while i < self.len {
      if let Some((key, _)) = &self.items[i] {
        if key.borrow() == k {
          return Some(i);
        }
      }
      i += 1;
    }
    None
  }

  pub fn get<Q: ?Sized + Eq>(&self, k: &Q) -> Option<&V>
  where
    K: Borrow<Q>,
  {
    match self.position(k) {
      Some(i) => self.items[i].as_ref().map(|kv| &kv.1),
      None => None,
    }
  }

  pub fn get_mut<Q: ?Sized + Eq>(&mut self, k: &Q) -> Option<&mut V>
  where
    K: Borrow<Q>,
  {
    match self.position(k) {
      Some(i) => self.items[i].as_mut().map(|kv| &mut kv.1),
      None => None,
    }
  }

  pub fn contains_key<Q: ?Sized + Eq>(&self, k: &Q) -> bool
  where
    K: Borrow<Q>,
  {
    self.position(k).is_some()
  }

  fn push(&mut self, k: K, v: V) -> usize {
    assert!(self.len < CAP, "verification map model capacity exceeded");
    let at = self.len;
    self.items[at] = Some((k, v));
    self.len += 1;
    at
  }

  pub fn insert(&mut self, k: K, v: V) -> Option<V> {
    match self.position(&k) {
      Some(i) => match self.items[i].as_mut() {
        Some(kv) => Some(std::mem::replace(&mut kv.1, v)),
        None => None,
      },
      None => {
        self.push(k, v);
        None
      }
    }
  }

  pub fn remove<Q: ?Sized + Eq>(&mut self, k: &Q) -> Option<V>
  where
    K: Borrow<Q>,
  {
    match self.position(k) {
      Some(i) => {
        let out = self.items[i].take();
        // keep the occupied slots contiguous
        let mut j = i;
        while j + 1 < self.len {
          self.items[j] = self.items[j + 1].take();
          j += 1;
        }
        self.len -= 1;
        out.map(|kv| kv.1)
      }
      None => None,
    }
  }

  pub fn entry(&mut self, k: K) -> Entry<'_, K, V> {
    let pos = self.position(&k);
    Entry {
      map: self,
      key: Some(k),
      pos,
    }
  }

  pub fn iter(&self) -> impl Iterator<Item = (&K, &V)> {
    self.items.iter().filter_map(split)
  }

  pub fn keys(&self) -> impl Iterator<Item = &K> {
    self.iter().map(|(k, _)| k)
  }

  pub fn values(&self) -> impl Iterator<Item = &V> {
    self.iter().map(|(_, v)| v)
  }

  pub fn values_mut(&mut self) -> impl Iterator<Item = &mut V> {
    self.items.iter_mut().filter_map(|o| o.as_mut().map(|kv| &mut kv.1))
  }

  pub fn clear(&mut self) {
    let mut i = 0;
    while i < CAP {
      self.items[i] = None;
      i += 1;
    }
    self.len = 0;
  }
}

pub struct Entry<'a, K, V> {
  map: &'a mut HashMap<K, V>,
  key: Option<K>,
  pos: Option<usize>,
}

impl<'a, K: Eq, V> Entry<'a, K, V> {
  pub fn or_insert_with<F: FnOnce() -> V>(self, f: F) -> &'a mut V {
    let at = match self.pos {
      Some(i) => i,
      None => self.map.push(self.key.unwrap(), f()),
    };
    match self.map.items[at].as_mut() {
      Some(kv) => &mut kv.1,
      None => unreachable!(),
    }
  }

  pub fn or_insert(self, v: V) -> &'a mut V {
    self.or_insert_with(|| v)
  }

  pub fn or_default(self) -> &'a mut V
  where
    V: Default,
  {
    self.or_insert_with(V::default)
  }
}

impl<K, V> IntoIterator for HashMap<K, V> {
  type Item = (K, V);
  type IntoIter = std::iter::Flatten<std::array::IntoIter<Option<(K, V)>, CAP>>;
  fn into_iter(self) -> Self::IntoIter {
    self.items.into_iter().flatten()
  }
}

impl<'a, K, V> IntoIterator for &'a HashMap<K, V> {
  type Item = (&'a K, &'a V);
  type IntoIter = std::iter::FilterMap<std::slice::Iter<'a, Option<(K, V)>>, fn(&'a Option<(K, V)>) -> Option<(&'a K, &'a V)>>;
  fn into_iter(self) -> Self::IntoIter {
    self.items.iter().filter_map(split as fn(&'a Option<(K, V)>) -> Option<(&'a K, &'a V)>)
  }
}

impl<K: Eq, V> FromIterator<(K, V)> for HashMap<K, V> {
  fn from_iter<I: IntoIterator<Item = (K, V)>>(iter: I) -> Self {
    let mut m = HashMap::new();
    for (k, v) in iter {
      m.insert(k, v);
    }
    m
  }
}

#[derive(Clone, Debug)]
pub struct HashSet<T> {
  items: Vec<T>,
}

impl<T> Default for HashSet<T> {
  fn default() -> Self {
    HashSet { items: Vec::new() }
  }
}

impl<T: Eq> HashSet<T> {
  pub fn new() -> Self {
    HashSet { items: Vec::new() }
  }

  pub fn len(&self) -> usize {
    self.items.len()
  }

  pub fn is_empty(&self) -> bool {
    self.items.is_empty()
  }

  pub fn contains<Q: ?Sized + Eq>(&self, v: &Q) -> bool
  where
    T: Borrow<Q>,
  {
    let mut i = 0;
    while i < self.items.len() {
      if self.items[i].borrow() == v {
        return true;
      }
      i += 1;
    }
    false
  }

  pub fn insert(&mut self, v: T) -> bool {
    if self.contains(&v) {
      false
    } else {
      self.items.push(v);
      true
    }
  }

  pub fn iter(&self) -> std::slice::Iter<'_, T> {
    self.items.iter()
  }
}

impl<T> IntoIterator for HashSet<T> {
  type Item = T;
  type IntoIter = std::vec::IntoIter<T>;
  fn into_iter(self) -> Self::IntoIter {
    self.items.into_iter()
  }
}
