//! Container models (DESIGN 2.2): Vec-backed, API-compatible stand-ins for
//! `std::collections::HashMap` / `HashSet` used ONLY in the verification build,
//! in the files listed by `//@@ rewrite:` lines of the harness files.  Hash
//! tables are out of reach for CBMC (SipHash + random keys + probing); these
//! models implement the same finite-map semantics with linear search.
//! Iteration order is insertion order (the real one is hash order): code whose
//! result depends on iteration order is outside what they can show.
#![allow(dead_code)]

use std::borrow::Borrow;

#[derive(Clone, Debug)]
pub struct HashMap<K, V> {
  items: Vec<(K, V)>,
}

impl<K, V> Default for HashMap<K, V> {
  fn default() -> Self {
    HashMap { items: Vec::new() }
  }
}

impl<K: Eq, V> HashMap<K, V> {
  pub fn new() -> Self {
    HashMap { items: Vec::new() }
  }

  pub fn with_capacity(n: usize) -> Self {
    HashMap {
      items: Vec::with_capacity(n),
    }
  }

  pub fn len(&self) -> usize {
    self.items.len()
  }

  pub fn is_empty(&self) -> bool {
    self.items.is_empty()
  }

  fn position<Q: ?Sized + Eq>(&self, k: &Q) -> Option<usize>
  where
    K: Borrow<Q>,
  {
    let mut i = 0;
    while i < self.items.len() {
      if self.items[i].0.borrow() == k {
        return Some(i);
      }
      i += 1;
    }
    None
  }

  pub fn get<Q: ?Sized + Eq>(&self, k: &Q) -> Option<&V>
  where
    K: Borrow<Q>,
  {
    match self.position(k) {
      Some(i) => Some(&self.items[i].1),
      None => None,
    }
  }

  pub fn get_mut<Q: ?Sized + Eq>(&mut self, k: &Q) -> Option<&mut V>
  where
    K: Borrow<Q>,
  {
    match self.position(k) {
      Some(i) => Some(&mut self.items[i].1),
      None => None,
    }
  }

  pub fn contains_key<Q: ?Sized + Eq>(&self, k: &Q) -> bool
  where
    K: Borrow<Q>,
  {
    self.position(k).is_some()
  }

  pub fn insert(&mut self, k: K, v: V) -> Option<V> {
    match self.position(&k) {
      Some(i) => Some(std::mem::replace(&mut self.items[i].1, v)),
      None => {
        self.items.push((k, v));
        None
      }
    }
  }

  pub fn remove<Q: ?Sized + Eq>(&mut self, k: &Q) -> Option<V>
  where
    K: Borrow<Q>,
  {
    match self.position(k) {
      Some(i) => Some(self.items.remove(i).1),
      None => None,
    }
  }

  pub fn entry(&mut self, k: K) -> Entry<'_, K, V> {
    let pos = self.position(&k);
    Entry {
      map: self,
      key: Some(k),
      pos,
    }
  }

  pub fn iter(&self) -> impl Iterator<Item = (&K, &V)> {
    self.items.iter().map(|(k, v)| (k, v))
  }

  pub fn iter_mut(&mut self) -> impl Iterator<Item = (&K, &mut V)> {
    self.items.iter_mut().map(|(k, v)| (&*k, v))
  }

  pub fn keys(&self) -> impl Iterator<Item = &K> {
    self.items.iter().map(|(k, _)| k)
  }

  pub fn values(&self) -> impl Iterator<Item = &V> {
    self.items.iter().map(|(_, v)| v)
  }

  pub fn values_mut(&mut self) -> impl Iterator<Item = &mut V> {
    self.items.iter_mut().map(|(_, v)| v)
  }

  pub fn retain<F: FnMut(&K, &mut V) -> bool>(&mut self, mut f: F) {
    self.items.retain_mut(|(k, v)| f(k, v));
  }

  pub fn clear(&mut self) {
    self.items.clear();
  }
}

pub struct Entry<'a, K, V> {
  map: &'a mut HashMap<K, V>,
  key: Option<K>,
  pos: Option<usize>,
}

impl<'a, K: Eq, V> Entry<'a, K, V> {
  pub fn or_insert_with<F: FnOnce() -> V>(self, f: F) -> &'a mut V {
    match self.pos {
      Some(i) => &mut self.map.items[i].1,
      None => {
        self.map.items.push((self.key.unwrap(), f()));
        let n = self.map.items.len();
        &mut self.map.items[n - 1].1
      }
    }
  }

  pub fn or_insert(self, v: V) -> &'a mut V {
    self.or_insert_with(|| v)
  }

  pub fn or_default(self) -> &'a mut V
  where
    V: Default,
  {
    self.or_insert_with(V::default)
  }
}

impl<K, V> IntoIterator for HashMap<K, V> {
  type Item = (K, V);
  type IntoIter = std::vec::IntoIter<(K, V)>;
  fn into_iter(self) -> Self::IntoIter {
    self.items.into_iter()
  }
}

impl<'a, K, V> IntoIterator for &'a HashMap<K, V> {
  type Item = (&'a K, &'a V);
  type IntoIter = std::iter::Map<std::slice::Iter<'a, (K, V)>, fn(&'a (K, V)) -> (&'a K, &'a V)>;
  fn into_iter(self) -> Self::IntoIter {
    fn split<'b, K, V>(kv: &'b (K, V)) -> (&'b K, &'b V) {
      (&kv.0, &kv.1)
    }
    self.items.iter().map(split as fn(&'a (K, V)) -> (&'a K, &'a V))
  }
}

impl<K: Eq, V> FromIterator<(K, V)> for HashMap<K, V> {
  fn from_iter<I: IntoIterator<Item = (K, V)>>(iter: I) -> Self {
    let mut m = HashMap::new();
    for (k, v) in iter {
      m.insert(k, v);
    }
    m
  }
}

#[derive(Clone, Debug)]
pub struct HashSet<T> {
  items: Vec<T>,
}

impl<T> Default for HashSet<T> {
  fn default() -> Self {
    HashSet { items: Vec::new() }
  }
}

impl<T: Eq> HashSet<T> {
  pub fn new() -> Self {
    HashSet { items: Vec::new() }
  }

  pub fn len(&self) -> usize {
    self.items.len()
  }

  pub fn is_empty(&self) -> bool {
    self.items.is_empty()
  }

  pub fn contains<Q: ?Sized + Eq>(&self, v: &Q) -> bool
  where
    T: Borrow<Q>,
  {
    let mut i = 0;
    while i < self.items.len() {
      if self.items[i].borrow() == v {
        return true;
      }
      i += 1;
    }
    false
  }

  pub fn insert(&mut self, v: T) -> bool {
    if self.contains(&v) {
      false
    } else {
      self.items.push(v);
      true
    }
  }

  pub fn iter(&self) -> std::slice::Iter<'_, T> {
    self.items.iter()
  }
}

impl<T> IntoIterator for HashSet<T> {
  type Item = T;
  type IntoIter = std::vec::IntoIter<T>;
  fn into_iter(self) -> Self::IntoIter {
    self.items.into_iter()
  }
}
