//! Container models (DESIGN 2.2): Vec-backed, API-compatible stand-ins for
//! `std::collections::HashMap` / `HashSet` used ONLY in the verification build
//! (fixed capacity, linear search),
//! in the files listed by `//@@ rewrite:` lines of the harness files.  Hash
//! tables are out of reach for CBMC (SipHash + random keys + probing); these
//! models implement the same finite-map semantics with linear search.
//! Iteration order is insertion order (the real one is hash order): code whose
//! result depends on iteration order is outside what they can show.
#![allow(dead_code)]

use std::borrow::Borrow;

/// Capacity of the model map.  The entries live INLINE in the struct (a fixed
/// array), not in a heap Vec: CBMC keeps enum payloads of stack objects constant
/// but loses them for heap objects, after which every lookup is explored for
/// every variant of the stored enum (measured: the same harness goes from a
/// 900 s timeout to seconds).
pub const CAP: usize = 6;

#[derive(Clone, Debug)]
pub struct HashMap<K, V> {
  items: [Option<(K, V)>; CAP],
  len: usize,
}

impl<K, V> Default for HashMap<K, V> {
  fn default() -> Self {
    HashMap {
      items: [None, None, None, None, None, None],
      len: 0,
    }
  }
}

fn split<'b, K, V>(kv: &'b Option<(K, V)>) -> Option<(&'b K, &'b V)> {
  match kv {
    Some((k, v)) => Some((k, v)),
    None => None,
  }
}

impl<K: Eq, V> HashMap<K, V> {
  pub fn new() -> Self {
    Self::default()
  }

  pub fn with_capacity(_n: usize) -> Self {
    Self::default()
  }

  pub fn len(&self) -> usize {
    self.len
  }

  pub fn is_empty(&self) -> bool {
    self.len == 0
  }

  fn position<Q: ?Sized + Eq>(&self, k: &Q) -> Option<usize>
  where
    K: Borrow<Q>,
  {
    let mut i = 0;
    while i < self.len {
      if let Some((key, _)) = &self.items[i] {
        if key.borrow() == k {
          return Some(i);
        }
      }
      i += 1;
    }
    None
  }

  pub fn get<Q: ?Sized + Eq>(&self, k: &Q) -> Option<&V>
  where
    K: Borrow<Q>,
  {
    match self.position(k) {
      Some(i) => self.items[i].as_ref().map(|kv| &kv.1),
      None => None,
    }
  }

  pub fn get_mut<Q: ?Sized + Eq>(&mut self, k: &Q) -> Option<&mut V>
  where
    K: Borrow<Q>,
  {
    match self.position(k) {
      Some(i) => self.items[i].as_mut().map(|kv| &mut kv.1),
      None => None,
    }
  }

  pub fn contains_key<Q: ?Sized + Eq>(&self, k: &Q) -> bool
  where
    K: Borrow<Q>,
  {
    self.position(k).is_some()
  }

  fn push(&mut self, k: K, v: V) -> usize {
    assert!(self.len < CAP, "verification map model capacity exceeded");
    let at = self.len;
    self.items[at] = Some((k, v));
    self.len += 1;
    at
  }

  pub fn insert(&mut self, k: K, v: V) -> Option<V> {
    match self.position(&k) {
      Some(i) => match self.items[i].as_mut() {
        Some(kv) => Some(std::mem::replace(&mut kv.1, v)),
        None => None,
      },
      None => {
        self.push(k, v);
        None
      }
    }
  }

  pub fn remove<Q: ?Sized + Eq>(&mut self, k: &Q) -> Option<V>
  where
    K: Borrow<Q>,
  {
    match self.position(k) {
      Some(i) => {
        let out = self.items[i].take();
        // keep the occupied slots contiguous
        let mut j = i;
        while j + 1 < self.len {
          self.items[j] = self.items[j + 1].take();
          j += 1;
        }
        self.len -= 1;
        out.map(|kv| kv.1)
      }
      None => None,
    }
  }

  pub fn entry(&mut self, k: K) -> Entry<'_, K, V> {
    let pos = self.position(&k);
    Entry {
      map: self,
      key: Some(k),
      pos,
    }
  }

  pub fn iter(&self) -> impl Iterator<Item = (&K, &V)> {
    self.items.iter().filter_map(split)
  }

  pub fn keys(&self) -> impl Iterator<Item = &K> {
    self.iter().map(|(k, _)| k)
  }

  pub fn values(&self) -> impl Iterator<Item = &V> {
    self.iter().map(|(_, v)| v)
  }

  pub fn values_mut(&mut self) -> impl Iterator<Item = &mut V> {
    self.items.iter_mut().filter_map(|o| o.as_mut().map(|kv| &mut kv.1))
  }

  pub fn clear(&mut self) {
    let mut i = 0;
    while i < CAP {
      self.items[i] = None;
      i += 1;
    }
    self.len = 0;
  }
}

pub struct Entry<'a, K, V> {
  map: &'a mut HashMap<K, V>,
  key: Option<K>,
  pos: Option<usize>,
}

impl<'a, K: Eq, V> Entry<'a, K, V> {
  pub fn or_insert_with<F: FnOnce() -> V>(self, f: F) -> &'a mut V {
    let at = match self.pos {
      Some(i) => i,
      None => self.map.push(self.key.unwrap(), f()),
    };
    match self.map.items[at].as_mut() {
      Some(kv) => &mut kv.1,
      None => unreachable!(),
    }
  }

  pub fn or_insert(self, v: V) -> &'a mut V {
    self.or_insert_with(|| v)
  }

  pub fn or_default(self) -> &'a mut V
  where
    V: Default,
  {
    self.or_insert_with(V::default)
  }
}

impl<K, V> IntoIterator for HashMap<K, V> {
  type Item = (K, V);
  type IntoIter = std::iter::Flatten<std::array::IntoIter<Option<(K, V)>, CAP>>;
  fn into_iter(self) -> Self::IntoIter {
    self.items.into_iter().flatten()
  }
}

impl<'a, K, V> IntoIterator for &'a HashMap<K, V> {
  type Item = (&'a K, &'a V);
  type IntoIter = std::iter::FilterMap<std::slice::Iter<'a, Option<(K, V)>>, fn(&'a Option<(K, V)>) -> Option<(&'a K, &'a V)>>;
  fn into_iter(self) -> Self::IntoIter {
    self.items.iter().filter_map(split as fn(&'a Option<(K, V)>) -> Option<(&'a K, &'a V)>)
  }
}

impl<K: Eq, V> FromIterator<(K, V)> for HashMap<K, V> {
  fn from_iter<I: IntoIterator<Item = (K, V)>>(iter: I) -> Self {
    let mut m = HashMap::new();
    for (k, v) in iter {
      m.insert(k, v);
    }
    m
  }
}

#[derive(Clone, Debug)]
pub struct HashSet<T> {
  items: Vec<T>,
}

impl<T> Default for HashSet<T> {
  fn default() -> Self {
    HashSet { items: Vec::new() }
  }
}

impl<T: Eq> HashSet<T> {
  pub fn new() -> Self {
    HashSet { items: Vec::new() }
  }

  pub fn len(&self) -> usize {
    self.items.len()
  }

  pub fn is_empty(&self) -> bool {
    self.items.is_empty()
  }

  pub fn contains<Q: ?Sized + Eq>(&self, v: &Q) -> bool
  where
    T: Borrow<Q>,
  {
    let mut i = 0;
    while i < self.items.len() {
      if self.items[i].borrow() == v {
        return true;
      }
      i += 1;
    }
    false
  }

  pub fn insert(&mut self, v: T) -> bool {
    if self.contains(&v) {
      false
    } else {
      self.items.push(v);
      true
    }
  }

  pub fn iter(&self) -> std::slice::Iter<'_, T> {
    self.items.iter()
  }
}

impl<T> IntoIterator for HashSet<T> {
  type Item = T;
  type IntoIter = std::vec::IntoIter<T>;
  fn into_iter(self) -> Self::IntoIter {
    self.items.into_iter()
  }
}

// ---------------------------------------------------------------------------
// BinaryHeap model (used only by the executor harnesses of query/wand.rs).
// std's BinaryHeap sifts elements to positions that depend on the (symbolic)
// keys, so every later access is a symbolic-index access into a heap Vec; for
// CBMC that does not terminate already with 3 elements (DESIGN 8.2).  The model
// implements the same priority-queue contract (push / pop-maximum / peek-maximum
// under `Ord`, len, iteration in unspecified order) over a fixed array of inline
// slots with linear search.  Among equal maxima std makes no promise; the model
// returns the one in the lowest slot.
// ---------------------------------------------------------------------------

pub const HEAP_CAP: usize = 3;

pub struct BinaryHeap<T> {
  slots: [Option<T>; HEAP_CAP],
}

impl<T: Ord> Default for BinaryHeap<T> {
  fn default() -> Self {
    Self::new()
  }
}

impl<T: Ord> BinaryHeap<T> {
  pub fn new() -> Self {
    BinaryHeap {
      slots: [const { None }; HEAP_CAP],
    }
  }

  pub fn with_capacity(_n: usize) -> Self {
    Self::new()
  }

  pub fn len(&self) -> usize {
    let mut n = 0;
    let mut i = 0;
    while i < HEAP_CAP {
      if self.slots[i].is_some() {
        n += 1;
      }
      i += 1;
    }
    n
  }

  pub fn is_empty(&self) -> bool {
    self.len() == 0
  }

  pub fn push(&mut self, item: T) {
    let mut it = Some(item);
    let mut i = 0;
    while i < HEAP_CAP {
      if it.is_some() && self.slots[i].is_none() {
        // the slot is empty: overwrite without running drop glue for the old value
        unsafe { std::ptr::write(&mut self.slots[i], it.take()) };
      }
      i += 1;
    }
    if it.is_some() {
      // A harness that needs more than HEAP_CAP elements is outside what the model
      // can show: the engine reports this message as INCONCLUSIVE, never as a verdict.
      std::mem::forget(it);
      panic!("VERIF-MODEL: BinaryHeap model capacity exceeded");
    }
  }

  fn max_slot(&self) -> Option<usize> {
    let mut best: Option<usize> = None;
    let mut i = 0;
    while i < HEAP_CAP {
      if let Some(x) = &self.slots[i] {
        best = match best {
          None => Some(i),
          Some(b) => match &self.slots[b] {
            Some(y) if x.cmp(y) == std::cmp::Ordering::Greater => Some(i),
            _ => Some(b),
          },
        };
      }
      i += 1;
    }
    best
  }

  pub fn peek(&self) -> Option<&T> {
    match self.max_slot() {
      Some(i) => self.slots[i].as_ref(),
      None => None,
    }
  }

  pub fn pop(&mut self) -> Option<T> {
    match self.max_slot() {
      Some(i) => self.slots[i].take(),
      None => None,
    }
  }
}

pub struct HeapIntoIter<T> {
  slots: [Option<T>; HEAP_CAP],
  pos: usize,
}

impl<T> Iterator for HeapIntoIter<T> {
  type Item = T;
  fn next(&mut self) -> Option<T> {
    while self.pos < HEAP_CAP {
      let i = self.pos;
      self.pos += 1;
      if let Some(x) = self.slots[i].take() {
        return Some(x);
      }
    }
    None
  }
}

impl<T> IntoIterator for BinaryHeap<T> {
  type Item = T;
  type IntoIter = HeapIntoIter<T>;
  fn into_iter(self) -> HeapIntoIter<T> {
    HeapIntoIter {
      slots: self.slots,
      pos: 0,
    }
  }
}

impl<T: Ord> FromIterator<T> for BinaryHeap<T> {
  fn from_iter<I: IntoIterator<Item = T>>(it: I) -> Self {
    let mut h = BinaryHeap::new();
    for x in it {
      h.push(x);
    }
    h
  }
}

/// Stand-in for `<[T]>::sort_by` on the short result vector of `finalize_heap`
/// (std's sort dispatches on the slice length; with a symbolic length CBMC explores
/// the quicksort / driftsort recursion and does not terminate).  Stable exchange
/// sort over at most HEAP_CAP elements: same contract (sorted by `f`, stable).
pub fn sort_by<T, F: FnMut(&T, &T) -> std::cmp::Ordering>(v: &mut [T], mut f: F) {
  if v.len() > HEAP_CAP {
    panic!("VERIF-MODEL: sort model capacity exceeded");
  }
  let mut pass = 0;
  while pass < HEAP_CAP {
    let mut j = 0;
    while j + 1 < HEAP_CAP {
      if j + 1 < v.len() && f(&v[j], &v[j + 1]) == std::cmp::Ordering::Greater {
        v.swap(j, j + 1);
      }
      j += 1;
    }
    pass += 1;
  }
}

// ---------------------------------------------------------------------------
// Small inline vector of Copy values (used for the tombstone lists of the commit
// fold slice): `Vec::push` on a heap vector whose length is symbolic goes through
// grow / realloc with a symbolic size, which exhausts the SAT back end's memory.
// Same contract as Vec for push / len / indexing / iteration, capacity 4.
// ---------------------------------------------------------------------------

pub const SMALL_CAP: usize = 4;

// Four scalar fields instead of an inline array: with `[T; 4]` nested inside the
// Option<(K, V)> slots of the map model CBMC 6.11 lost a stored element when two
// states were merged after an (unreachable) conditional push - see attic/README.md.
#[derive(Clone, Debug)]
pub struct SmallSeq<T: Copy + Default> {
  v0: T,
  v1: T,
  v2: T,
  v3: T,
  len: usize,
}

impl<T: Copy + Default> Default for SmallSeq<T> {
  fn default() -> Self {
    SmallSeq {
      v0: T::default(),
      v1: T::default(),
      v2: T::default(),
      v3: T::default(),
      len: 0,
    }
  }
}

impl<T: Copy + Default> SmallSeq<T> {
  pub fn new() -> Self {
    Self::default()
  }

  pub fn len(&self) -> usize {
    self.len
  }

  pub fn is_empty(&self) -> bool {
    self.len == 0
  }

  pub fn push(&mut self, v: T) {
    match self.len {
      0 => self.v0 = v,
      1 => self.v1 = v,
      2 => self.v2 = v,
      3 => self.v3 = v,
      _ => panic!("VERIF-MODEL: SmallSeq model capacity exceeded"),
    }
    self.len += 1;
  }

  pub fn get(&self, i: usize) -> Option<T> {
    if i >= self.len {
      return None;
    }
    match i {
      0 => Some(self.v0),
      1 => Some(self.v1),
      2 => Some(self.v2),
      _ => Some(self.v3),
    }
  }
}

// ---------------------------------------------------------------------------
// Finite map for the commit-fold slice (C04).  Same contract as the HashMap model
// above, but every slot access uses a CONSTANT array index selected by comparison
// (`if i == at`): with symbolic-index writes through `&mut` into the inline array
// CBMC 6.11 produced a counterexample for the fold harness that does not exist
// natively (a value pushed through `entry().or_default()` at a symbolic slot was
// lost); selecting among constant slots avoids symbolic pointer offsets altogether.
// ---------------------------------------------------------------------------

pub const FOLD_CAP: usize = 4;

pub struct FoldMap<K, V> {
  items: [Option<(K, V)>; FOLD_CAP],
  len: usize,
}

impl<K: Eq, V> FoldMap<K, V> {
  pub fn new() -> Self {
    FoldMap {
      items: [const { None }; FOLD_CAP],
      len: 0,
    }
  }

  pub fn len(&self) -> usize {
    self.len
  }

  pub fn is_empty(&self) -> bool {
    self.len == 0
  }

  fn position(&self, k: &K) -> Option<usize> {
    let mut found = None;
    let mut i = 0;
    while i < FOLD_CAP {
      if i < self.len && found.is_none() {
        if let Some((key, _)) = &self.items[i] {
          if key == k {
            found = Some(i);
          }
        }
      }
      i += 1;
    }
    found
  }

  pub fn contains_key(&self, k: &K) -> bool {
    self.position(k).is_some()
  }

  pub fn get(&self, k: &K) -> Option<&V> {
    let at = self.position(k);
    let mut i = 0;
    while i < FOLD_CAP {
      if Some(i) == at {
        return self.items[i].as_ref().map(|kv| &kv.1);
      }
      i += 1;
    }
    None
  }

  fn slot_mut(&mut self, at: usize) -> &mut V {
    for (i, s) in self.items.iter_mut().enumerate() {
      if i == at {
        match s.as_mut() {
          Some(kv) => return &mut kv.1,
          None => panic!("VERIF-MODEL: FoldMap slot below len is empty"),
        }
      }
    }
    panic!("VERIF-MODEL: FoldMap slot index out of range")
  }

  fn push(&mut self, k: K, v: V) -> usize {
    if self.len >= FOLD_CAP {
      panic!("VERIF-MODEL: FoldMap model capacity exceeded");
    }
    let at = self.len;
    let mut it = Some((k, v));
    let mut i = 0;
    while i < FOLD_CAP {
      if i == at {
        self.items[i] = it.take();
      }
      i += 1;
    }
    self.len += 1;
    at
  }

  pub fn insert(&mut self, k: K, v: V) -> Option<V> {
    match self.position(&k) {
      Some(at) => Some(std::mem::replace(self.slot_mut(at), v)),
      None => {
        self.push(k, v);
        None
      }
    }
  }

  pub fn remove(&mut self, k: &K) -> Option<V> {
    match self.position(k) {
      Some(at) => {
        let mut out = None;
        let mut i = 0;
        while i < FOLD_CAP {
          if i == at {
            out = self.items[i].take();
          }
          i += 1;
        }
        // keep the occupied slots contiguous
        let mut j = 0;
        while j + 1 < FOLD_CAP {
          if j >= at && j + 1 < self.len {
            self.items[j] = self.items[j + 1].take();
          }
          j += 1;
        }
        self.len -= 1;
        out.map(|kv| kv.1)
      }
      None => None,
    }
  }

  pub fn get_mut(&mut self, k: &K) -> Option<&mut V> {
    match self.position(k) {
      Some(at) => Some(self.slot_mut(at)),
      None => None,
    }
  }

  pub fn entry(&mut self, k: K) -> FoldEntry<'_, K, V> {
    let pos = self.position(&k);
    FoldEntry {
      map: self,
      key: Some(k),
      pos,
    }
  }
}

pub struct FoldEntry<'a, K, V> {
  map: &'a mut FoldMap<K, V>,
  key: Option<K>,
  pos: Option<usize>,
}

impl<'a, K: Eq, V> FoldEntry<'a, K, V> {
  pub fn or_insert_with<F: FnOnce() -> V>(self, f: F) -> &'a mut V {
    let at = match self.pos {
      Some(i) => i,
      None => self.map.push(self.key.unwrap(), f()),
    };
    self.map.slot_mut(at)
  }

  pub fn or_default(self) -> &'a mut V
  where
    V: Default,
  {
    self.or_insert_with(V::default)
  }
}

impl<K: Eq, V> FoldMap<K, V> {
  /// Same contract as `retain` of the std maps: keeps the entries for which `f` is true.
  pub fn retain<F: FnMut(&K, &mut V) -> bool>(&mut self, mut f: F) {
    let mut kept: [Option<(K, V)>; FOLD_CAP] = [const { None }; FOLD_CAP];
    let mut n = 0usize;
    let mut i = 0;
    while i < FOLD_CAP {
      if let Some((k, mut v)) = self.items[i].take() {
        if f(&k, &mut v) {
          let mut it = Some((k, v));
          let mut j = 0;
          while j < FOLD_CAP {
            if j == n {
              kept[j] = it.take();
            }
            j += 1;
          }
          n += 1;
        }
      }
      i += 1;
    }
    self.items = kept;
    self.len = n;
  }
}

/// Finite set with the same constant-index discipline (for refactorings of the fold
/// that keep auxiliary id sets).
pub struct FoldSet<T> {
  inner: FoldMap<T, ()>,
}

impl<T: Eq> FoldSet<T> {
  pub fn new() -> Self {
    FoldSet { inner: FoldMap::new() }
  }

  pub fn len(&self) -> usize {
    self.inner.len()
  }

  pub fn is_empty(&self) -> bool {
    self.inner.is_empty()
  }

  pub fn insert(&mut self, v: T) -> bool {
    self.inner.insert(v, ()).is_none()
  }

  pub fn contains<Q: ?Sized + Eq>(&self, v: &Q) -> bool
  where
    T: Borrow<Q>,
  {
    let mut found = false;
    let mut i = 0;
    while i < FOLD_CAP {
      if i < self.inner.len {
        if let Some((k, _)) = &self.inner.items[i] {
          if k.borrow() == v {
            found = true;
          }
        }
      }
      i += 1;
    }
    found
  }
}
