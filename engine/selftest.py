"""Native cross-checks of the hand-written predicates used inside kani::assume
(DESIGN 2.4): an over- or under-constraining predicate would silently shrink or
widen what the solver quantifies over."""
import os
import re
import subprocess
import sys
import tempfile

VERIF = os.path.dirname(os.path.dirname(os.path.abspath(__file__)))

MAIN = r'''
#[allow(dead_code)]
mod support { SUPPORT }
fn main() {
    let mut n: u64 = 0;
    // every byte string of length 0..=3
    for len in 0..=3usize {
        let total = 256u64.pow(len as u32);
        for v in 0..total {
            let b = [(v & 0xff) as u8, ((v >> 8) & 0xff) as u8, ((v >> 16) & 0xff) as u8];
            let s = &b[..len];
            assert_eq!(support::utf8_ok(s), std::str::from_utf8(s).is_ok(), "utf8_ok disagrees with std on {:?}", s);
            n += 1;
        }
    }
    // 4-byte strings: every lead byte x every second byte x sampled tails, plus all 4-byte encodings of sampled scalars
    for a in 0..=255u8 { for b in 0..=255u8 { for c in [0u8, 0x41, 0x7f, 0x80, 0x8f, 0x90, 0x9f, 0xa0, 0xbf, 0xc0, 0xc2, 0xe0, 0xed, 0xf0, 0xf4, 0xf5, 0xff] {
        for d in [0u8, 0x41, 0x7f, 0x80, 0xbf, 0xc0, 0xc2, 0xe0, 0xf0, 0xff] {
            let s = [a, b, c, d];
            assert_eq!(support::utf8_ok(&s), std::str::from_utf8(&s).is_ok(), "utf8_ok disagrees with std on {:?}", s);
            n += 1;
        }
    }}}
    let mut cp = 0x10000u32;
    while cp <= 0x10ffff {
        let ch = char::from_u32(cp).unwrap();
        let mut buf = [0u8; 4];
        let s = ch.encode_utf8(&mut buf);
        assert!(support::utf8_ok(s.as_bytes()));
        cp += 257;
        n += 1;
    }
    println!("selftest: utf8_ok agrees with std::str::from_utf8 on {} inputs", n);
}
'''


def main():
    sup = open(os.path.join(VERIF, "harness", "support.rs")).read()
    sup = re.sub(r"// BEGIN core-only.*?// END core-only", "", sup, flags=re.S)
    sup = re.sub(r"^//!.*$", "", sup, flags=re.M)
    sup = sup.replace("#![allow(dead_code)]", "")
    src = MAIN.replace("SUPPORT", sup)
    with tempfile.TemporaryDirectory(dir="/var/tmp") as d:
        p = os.path.join(d, "selftest.rs")
        open(p, "w").write(src)
        r = subprocess.run(["rustc", "-O", "--edition", "2021", "-o", os.path.join(d, "selftest"), p],
                           stdout=subprocess.PIPE, stderr=subprocess.STDOUT, text=True)
        if r.returncode != 0:
            print(r.stdout[-3000:])
            return 2
        r = subprocess.run([os.path.join(d, "selftest")], stdout=subprocess.PIPE, stderr=subprocess.STDOUT, text=True)
        print(r.stdout.strip()[-2000:])
        return 0 if r.returncode == 0 else 1


if __name__ == "__main__":
    sys.exit(main())
