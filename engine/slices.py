"""Source slices (DESIGN 2.3): cut a run of statements out of the CURRENT source
by anchor lines and wrap them in a function so the solver can execute them.

spec (one line in a harness file header):
    //@@ slice: <name> <relative file> -- see SLICES below for the definition
"""
import os
import re


class SliceError(Exception):
    pass


SLICES = {}


def register(name, **kw):
    SLICES[name] = kw


def cut(root, rel, start_pat, end_pat, include_start=True, include_end=False, after=None):
    path = os.path.join(root, rel)
    if not os.path.isfile(path):
        raise SliceError("file missing: " + rel)
    lines = open(path).read().split("\n")
    lo = 0
    if after:
        a = [i for i, l in enumerate(lines) if re.search(after, l)]
        if len(a) != 1:
            raise SliceError("region anchor %r matched %d times in %s" % (after, len(a), rel))
        lo = a[0]
    s = [i for i, l in enumerate(lines) if i >= lo and re.search(start_pat, l)]
    if after:
        s = s[:1]
    if len(s) != 1:
        raise SliceError("start anchor %r matched %d times in %s" % (start_pat, len(s), rel))
    e = [i for i, l in enumerate(lines) if i > s[0] and re.search(end_pat, l)]
    if not e:
        raise SliceError("end anchor %r not found after start in %s" % (end_pat, rel))
    a = s[0] if include_start else s[0] + 1
    b = e[0] + 1 if include_end else e[0]
    return "\n".join(lines[a:b])


def region(root, rel, from_pat, to_pat):
    lines = open(os.path.join(root, rel)).read().split("\n")
    b = [i for i, l in enumerate(lines) if re.search(to_pat, l)]
    if len(b) != 1:
        raise SliceError("region end %r matched %d times" % (to_pat, len(b)))
    a = [i for i, l in enumerate(lines) if i < b[0] and re.search(from_pat, l)]
    if not a:
        raise SliceError("region start %r not found before the end anchor" % from_pat)
    return "\n".join(lines[a[-1]:b[0] + 1])


def unavailable(spec):
    """Stand-in for a slice that could not be cut from the current source: same
    signature, diverging body.  Harnesses that call it become vacuous (their
    kani::cover! witnesses are unsatisfiable) and are reported inconclusive;
    harnesses of the same file that do not need the slice still run."""
    name = spec.split()[0]
    d = SLICES[name]
    return d["prefix"] + "\n  kani::assume(false);\n  loop {}\n}"


def generate(spec, root):
    name = spec.split()[0]
    if name not in SLICES:
        raise SliceError("unknown slice " + name)
    d = SLICES[name]
    for (from_pat, to_pat, forbidden, why) in d.get("forbid", []):
        if re.search(forbidden, region(root, d["file"], from_pat, to_pat)):
            raise SliceError("code outside the slice mentions %s (%s): the slice would not be faithful" % (forbidden, why))
    body = cut(root, d["file"], d["start"], d["end"], d.get("include_start", True), d.get("include_end", False),
               d.get("after"))
    for pat, rep in d.get("subst", []):
        body, n = re.subn(pat, rep, body)
        if n == 0 and not d.get("subst_optional"):
            raise SliceError("substitution %r did not apply (source changed)" % pat)
    return d["prefix"] + "\n" + body + "\n" + d["suffix"]


# --------------------------------------------------------------------------
# C26: bounded copy + NUL termination at the end of searchlite_search
# --------------------------------------------------------------------------
register(
    "ffi_search_tail",
    file="searchlite-ffi/src/lib.rs",
    after=r"^\s*let res = match reader\.search\(&req\) \{",
    start=r"^\s*\};\s*$",
    include_start=False,
    end=r"^\}",
    subst=[(r"let encoded = serde_json::to_string\(&res\)[^;]*;", "")],
    # the statements between the argument guard and the search result must not look at
    # the output buffer, otherwise guard+tail would not be the whole story
    forbid=[(r"^\s*let h = &mut \*handle;", r"^\s*let res = match reader\.search\(&req\) \{",
             r"out_json_buf|buf_cap", "between the handle dereference and the search call")],
    prefix=("/// SLICE (regenerated from the current source on every run): the statements of\n"
            "/// `searchlite_search` after the search itself, with the serialized response as a parameter.\n"
            "#[allow(unused_unsafe, unused_variables)]\n"
            "unsafe fn slice_search_tail(encoded: String, out_json_buf: *mut c_char, buf_cap: usize) -> usize {"),
    suffix="}",
)

# --------------------------------------------------------------------------
# C21: fragment window of highlight_fragments (between the regex match and the
# re-highlighting of the fragment)
# --------------------------------------------------------------------------
register(
    "highlight_window",
    file="searchlite-core/src/index/highlight.rs",
    start=r"^\s*let (mut )?start = m\.start\(\)",
    end=r"^\s*let fragment = ",
    include_end=True,
    subst=[(r"\bm\.start\(\)", "m_start"), (r"\bm\.end\(\)", "m_end")],
    subst_optional=True,
    prefix=("/// SLICE (regenerated from the current source on every run): the fragment-window\n"
            "/// statements of `highlight_fragments`, with the regex match offsets as parameters.\n"
            "#[allow(unused_variables, unused_mut)]\n"
            "fn slice_fragment_window(text: &str, m_start: usize, m_end: usize, opts: &HighlightOptions<'_>) -> (usize, usize, String) {"),
    suffix="  (start, end, fragment)\n}",
)


register(
    "ffi_search_guard",
    file="searchlite-ffi/src/lib.rs",
    start=r"^\) -> usize \{",
    end=r"^\s*let h = &mut \*handle;",
    include_start=False,
    subst=[],
    prefix=("/// SLICE (regenerated from the current source on every run): the statements of\n"
            "/// `searchlite_search` that run before the handle is dereferenced (usize::MAX = fell through).\n"
            "#[allow(unused_unsafe, unreachable_code, unused_variables, clippy::too_many_arguments)]\n"
            "unsafe fn slice_search_guard(\n"
            "  handle: *mut IndexHandle,\n  query: *const c_char,\n  limit: usize,\n  cursor: *const c_char,\n"
            "  aggs_json: *const c_char,\n  aggs_len: usize,\n  out_json_buf: *mut c_char,\n  buf_cap: usize,\n) -> usize {"),
    suffix="  usize::MAX\n}",
)


# --------------------------------------------------------------------------
# C11 / C16: the score cursor codec, cut into its three loop-free steps.  The
# whole PaginationCursor::decode (21 chunk iterations, each with two anyhow
# error exits) does not get through CBMC's symbolic execution even on a fully
# concrete cursor (> 15 min), so the per-chunk step, the field extraction and
# the byte layout of encode are checked separately and composed in the harness.
# --------------------------------------------------------------------------
register(
    "cursor_chunk_step",
    file="searchlite-core/src/api/reader.rs",
    after=r"^\s*fn decode\(raw: &str\) -> Result<Self> \{",
    start=r"for \(i, chunk\) in raw\.as_bytes\(\)\.chunks_exact\(2\)\.enumerate\(\) \{",
    include_start=False,
    end=r"^\s*bytes\[i\] = value;",
    prefix=("/// SLICE (regenerated from the current source): body of the per-chunk loop of\n"
            "/// `PaginationCursor::decode`, one 2-byte chunk -> one decoded byte.\n"
            "#[allow(unused_variables)]\n"
            "fn slice_cursor_chunk(i: usize, chunk: &[u8]) -> Result<u8> {"),
    suffix="  Ok(value)\n}",
)
register(
    "cursor_fields",
    file="searchlite-core/src/api/reader.rs",
    after=r"^\s*fn decode\(raw: &str\) -> Result<Self> \{",
    start=r"^\s*let version = bytes\[0\];",
    end=r"^  \}$",
    prefix=("/// SLICE (regenerated from the current source): the part of `PaginationCursor::decode`\n"
            "/// after the hex loop: 21 decoded bytes -> cursor (version / cap checks, field extraction).\n"
            "fn slice_cursor_fields(bytes: [u8; CURSOR_BYTES]) -> Result<PaginationCursor> {\n"
            "  type Self_ = PaginationCursor;"),
    subst=[(r"\bSelf \{", "Self_ {")],
    suffix="}",
)
register(
    "cursor_layout",
    file="searchlite-core/src/api/reader.rs",
    after=r"^\s*fn encode\(&self\) -> String \{",
    start=r"^\s*let score_bits = self",
    end=r"^\s*let mut encoded = String::with_capacity",
    prefix=("/// SLICE (regenerated from the current source): the byte layout built by\n"
            "/// `PaginationCursor::encode` before hex-encoding.\n"
            "fn slice_cursor_layout(this: &PaginationCursor) -> [u8; CURSOR_BYTES] {"),
    subst=[(r"\bself\b", "this")],
    suffix="  buf\n}",
)
register(
    "cursor_hex",
    file="searchlite-core/src/api/reader.rs",
    after=r"^\s*fn encode\(&self\) -> String \{",
    start=r"^\s*let mut encoded = String::with_capacity",
    end=r"^\s*encoded$",
    prefix=("/// SLICE (regenerated from the current source): the hex-encoding loop of\n"
            "/// `PaginationCursor::encode`, applied to a single byte.\n"
            "fn slice_cursor_hex(byte: u8) -> String {"),
    subst=[(r"for byte in buf \{", "for byte in [byte] {")],
    suffix="  encoded\n}",
)
register(
    "cursor_generation_check",
    file="searchlite-core/src/api/reader.rs",
    after=r"^fn decode_cursor\(",
    start=r"^\s*if cur\.generation\b.*\bmanifest_generation\b.*\{",
    end=r"^\s*\}\);$",
    include_end=True,
    prefix=("/// SLICE (regenerated from the current source): what `decode_cursor` does with a decoded\n"
            "/// score cursor (stale-generation rejection).\n"
            "#[allow(unreachable_code)]\n"
            "fn slice_cursor_generation_check(cur: PaginationCursor, manifest_generation: u32) -> Result<CursorState> {"),
    suffix="}",
)


# --------------------------------------------------------------------------
# C07: the "how many should clauses are required" tail of the Bool arm of
# QueryEvaluator::matches_node.  The whole arm cannot be run: query trees live
# in Vecs (heap) and CBMC loses the enum payload constants there, so every
# child is explored as every variant (incl. arbitrary filter trees).
# --------------------------------------------------------------------------
register(
    "bool_should_default",
    file="searchlite-core/src/api/reader.rs",
    after=r"^\s*fn matches_node\(&self, node: &QueryMatcher, doc_id: DocId\) -> bool \{",
    start=r"^\s*let min_should\b",
    end=r"^\s*should_matches >= min_should",
    include_end=True,
    prefix=("/// SLICE (regenerated from the current source): the last statements of the Bool arm of\n"
            "/// `QueryEvaluator::matches_node` (default for minimum_should_match and the final test).\n"
            "fn slice_bool_should_default(\n"
            "  minimum_should_match: &Option<usize>,\n"
            "  must: &Vec<QueryMatcher>,\n"
            "  should: &Vec<QueryMatcher>,\n"
            "  filter: &Vec<Filter>,\n"
            "  should_matches: usize,\n"
            ") -> bool {"),
    suffix="}",
)


# --------------------------------------------------------------------------
# C10: the dis_max combination inside ScoreExpr::evaluate.  The recursive
# evaluate() over heap-allocated children does not terminate under CBMC (enum
# payloads in Vecs are not kept constant), so the arithmetic of the DisMax arm is
# cut out with the child scores as a slice of floats.
# --------------------------------------------------------------------------
register(
    "dismax_combine",
    file="searchlite-core/src/query/planner.rs",
    after=r"^\s*pub\(crate\) fn evaluate\(&self, leaves: &\[f32\]\) -> f32 \{",
    start=r"^\s*if children\.is_empty\(\) \{",
    end=r"^      \}$",
    subst=[(r"\b(\w+)\.evaluate\(leaves\)", r"*\1")],
    prefix=("/// SLICE (regenerated from the current source): the body of the DisMax arm of\n"
            "/// `ScoreExpr::evaluate`, with the already evaluated child scores as input.\n"
            "#[allow(unused_variables)]\n"
            "fn slice_dismax_combine(children: &[f32], tie_breaker: &f32) -> f32 {"),
    suffix="}",
)


# --------------------------------------------------------------------------
# C22: ordering of completion options (inline closure of completion_suggest)
# --------------------------------------------------------------------------
register(
    "suggest_option_order",
    file="searchlite-core/src/api/reader.rs",
    after=r"^\s*fn completion_suggest\(",
    start=r"^\s*options\.sort_by\(\|a, b\| \{",
    include_start=False,
    end=r"^\s*\}\);",
    prefix=("/// SLICE (regenerated from the current source): the comparator closure that orders\n"
            "/// completion options in `completion_suggest`.\n"
            "fn slice_suggest_option_order(a: &SuggestOption, b: &SuggestOption) -> Ordering {"),
    suffix="}",
)



# --------------------------------------------------------------------------
# C26: argument guards of the other C entry points (statements before the first
# dereference / conversion of a pointer argument).  The real functions cannot be
# compiled by kani-compiler 0.68 (ICE on code reachable from Index::open).
# --------------------------------------------------------------------------
register(
    "ffi_add_json_guard",
    file="searchlite-ffi/src/lib.rs",
    after=r"^pub unsafe extern \"C\" fn searchlite_add_json\(",
    start=r"^\) -> c_int \{",
    include_start=False,
    end=r"^\s*let h = &mut \*handle;",
    prefix=("/// SLICE (regenerated from the current source): statements of `searchlite_add_json`\n"
            "/// before the handle is dereferenced (c_int::MAX = fell through).\n"
            "#[allow(unused_unsafe, unreachable_code, unused_variables)]\n"
            "unsafe fn slice_add_json_guard(handle: *mut IndexHandle, json: *const c_char, _len: usize) -> c_int {"),
    suffix="  c_int::MAX\n}",
)
register(
    "ffi_commit_guard",
    file="searchlite-ffi/src/lib.rs",
    after=r"^pub unsafe extern \"C\" fn searchlite_commit\(",
    start=r"^pub unsafe extern \"C\" fn searchlite_commit\(",
    include_start=False,
    end=r"^\s*let h = &mut \*handle;",
    prefix=("/// SLICE (regenerated from the current source): statements of `searchlite_commit`\n"
            "/// before the handle is dereferenced (c_int::MAX = fell through).\n"
            "#[allow(unused_unsafe, unreachable_code, unused_variables)]\n"
            "unsafe fn slice_commit_guard(handle: *mut IndexHandle) -> c_int {"),
    suffix="  c_int::MAX\n}",
)
register(
    "ffi_open_guard",
    file="searchlite-ffi/src/lib.rs",
    after=r"^pub unsafe extern \"C\" fn searchlite_index_open\(",
    start=r"^\) -> \*mut IndexHandle \{",
    include_start=False,
    end=r"^\s*let c_str = CStr::from_ptr\(path\);",
    prefix=("/// SLICE (regenerated from the current source): statements of `searchlite_index_open`\n"
            "/// before the path pointer is read (a dangling non-null pointer = fell through).\n"
            "#[allow(unused_unsafe, unreachable_code, unused_variables)]\n"
            "unsafe fn slice_open_guard(path: *const c_char, create_if_missing: bool) -> *mut IndexHandle {"),
    suffix="  std::ptr::NonNull::<IndexHandle>::dangling().as_ptr()\n}",
)

# --------------------------------------------------------------------------
# C09 / C10: the bounded top-k heap helpers of query/wand.rs, whole bodies, with
# the heap parameter typed as the priority-queue model of /verif/models (std's
# BinaryHeap with symbolic keys does not get through CBMC, DESIGN 8.2/8.8)
# --------------------------------------------------------------------------
register(
    "wand_push_top_k",
    file="searchlite-core/src/query/wand.rs",
    start=r"^fn push_top_k\(heap: &mut BinaryHeap<Reverse<RankedDoc>>, doc: RankedDoc, k: usize\) \{",
    include_start=False,
    end=r"^\}",
    prefix=("/// SLICE (regenerated from the current source on every run): the body of `push_top_k`.\n"
            "#[allow(unused_variables, unused_mut)]\n"
            "fn slice_push_top_k(heap: &mut crate::verif_models::BinaryHeap<Reverse<RankedDoc>>, doc: RankedDoc, k: usize) {"),
    suffix="}",
)

register(
    "wand_finalize_heap",
    file="searchlite-core/src/query/wand.rs",
    start=r"^fn finalize_heap\(heap: BinaryHeap<Reverse<RankedDoc>>\) -> Vec<RankedDoc> \{",
    include_start=False,
    end=r"^\}",
    subst=[(r"\b(\w+)\.sort_by\(", r"crate::verif_models::sort_by(&mut \1, "),
           (r"\b(\w+)\.sort_unstable_by\(", r"crate::verif_models::sort_by(&mut \1, ")],
    subst_optional=True,
    prefix=("/// SLICE (regenerated from the current source on every run): the body of `finalize_heap`\n"
            "/// (std's slice sort replaced by the short stable sort model).\n"
            "#[allow(unused_variables, unused_mut)]\n"
            "fn slice_finalize_heap(heap: crate::verif_models::BinaryHeap<Reverse<RankedDoc>>) -> Vec<RankedDoc> {"),
    suffix="}",
)

# --------------------------------------------------------------------------
# C11: the bounded page heap helper of api/reader.rs (whole body)
# --------------------------------------------------------------------------
register(
    "reader_push_ranked",
    file="searchlite-core/src/api/reader.rs",
    start=r"^fn push_ranked\(heap: &mut BinaryHeap<RankedHit>, hit: RankedHit, limit: usize\) \{",
    include_start=False,
    end=r"^\}",
    prefix=("/// SLICE (regenerated from the current source on every run): the body of `push_ranked`.\n"
            "#[allow(unused_variables, unused_mut)]\n"
            "fn slice_push_ranked(heap: &mut crate::verif_models::BinaryHeap<RankedHit>, hit: RankedHit, limit: usize) {"),
    suffix="}",
)

# --------------------------------------------------------------------------
# C16 / C11: everything `PaginationCursor::decode` does before its per-chunk loop
# (the length guard and the declaration of the fixed decode buffer).  The loop
# itself does not get through symbolic execution as a whole (DESIGN 8.2), so the
# guard is what keeps `bytes[i] = value` in bounds for over-long cursors.
# --------------------------------------------------------------------------
register(
    "cursor_length_guard",
    file="searchlite-core/src/api/reader.rs",
    start=r"^\s*fn decode\(raw: &str\) -> Result<Self> \{",
    include_start=False,
    end=r"^\s*for \(i, chunk\) in raw\.as_bytes\(\)\.chunks_exact\(2\)\.enumerate\(\) \{",
    prefix=("/// SLICE (regenerated from the current source): the statements of\n"
            "/// `PaginationCursor::decode` before the per-chunk loop; returns the length of the\n"
            "/// buffer the loop writes into (one byte per 2-byte chunk of `raw`).\n"
            "#[allow(unused_variables, unused_mut)]\n"
            "fn slice_cursor_length_guard(raw: &str) -> Result<usize> {"),
    suffix="  Ok(bytes.len())\n}",
)

# --------------------------------------------------------------------------
# C04: the fold of the queued operations inside IndexWriter::commit (between the
# declaration of `pending_new` and the construction of the new manifest): last add
# per id wins, deletes remove, replaced / deleted live copies are tombstoned.
# The three maps are the finite-map model of /verif/models (std HashMap / BTreeMap
# are out of reach for CBMC); the statements are the repository's.
# --------------------------------------------------------------------------
register(
    "commit_fold",
    file="searchlite-core/src/api/writer.rs",
    start=r"^\s*let mut pending_new: BTreeMap<String, Document> = BTreeMap::new\(\);",
    end=r"^\s*let mut new_manifest = manifest_snapshot\.clone\(\);",
    subst=[(r"\bself\.pending_ops\b", "pending_ops")],
    prefix=("/// SLICE (regenerated from the current source on every run): the statements of\n"
            "/// `IndexWriter::commit` that fold the queued operations into the set of new\n"
            "/// documents and the tombstones of replaced / deleted live copies.\n"
            "#[allow(unused_variables, unused_mut, unused_imports)]\n"
            "fn slice_commit_fold(\n"
            "  pending_ops: &[PendingOp],\n"
            "  live_docs: &mut crate::verif_models::FoldMap<String, DocAddress>,\n"
            ") -> (crate::verif_models::FoldMap<String, Document>, crate::verif_models::FoldMap<String, crate::verif_models::SmallSeq<DocId>>) {\n"
            "  use crate::verif_models::FoldMap as HashMap;\n"
            "  use crate::verif_models::FoldMap as BTreeMap;\n"
            "  use crate::verif_models::SmallSeq as Vec;\n"
            "  use crate::verif_models::FoldSet as HashSet;\n"
            "  let mut live_docs = live_docs;"),
    suffix="  (pending_new, tombstones)\n}",
)
