"""Source slices (DESIGN 2.3): cut a run of statements out of the CURRENT source
by anchor lines and wrap them in a function so the solver can execute them.

spec (one line in a harness file header):
    //@@ slice: <name> <relative file> -- see SLICES below for the definition
"""
import os
import re


class SliceError(Exception):
    pass


SLICES = {}


def register(name, **kw):
    SLICES[name] = kw


def cut(root, rel, start_pat, end_pat, include_start=True, include_end=False):
    path = os.path.join(root, rel)
    if not os.path.isfile(path):
        raise SliceError("file missing: " + rel)
    lines = open(path).read().split("\n")
    s = [i for i, l in enumerate(lines) if re.search(start_pat, l)]
    if len(s) != 1:
        raise SliceError("start anchor %r matched %d times in %s" % (start_pat, len(s), rel))
    e = [i for i, l in enumerate(lines) if i > s[0] and re.search(end_pat, l)]
    if not e:
        raise SliceError("end anchor %r not found after start in %s" % (end_pat, rel))
    a = s[0] if include_start else s[0] + 1
    b = e[0] + 1 if include_end else e[0]
    return "\n".join(lines[a:b])


def generate(spec, root):
    name = spec.split()[0]
    if name not in SLICES:
        raise SliceError("unknown slice " + name)
    d = SLICES[name]
    body = cut(root, d["file"], d["start"], d["end"], d.get("include_start", True), d.get("include_end", False))
    for pat, rep in d.get("subst", []):
        body, n = re.subn(pat, rep, body)
        if n == 0 and not d.get("subst_optional"):
            raise SliceError("substitution %r did not apply (source changed)" % pat)
    return d["prefix"] + "\n" + body + "\n" + d["suffix"]


# --------------------------------------------------------------------------
# C26: bounded copy + NUL termination at the end of searchlite_search
# --------------------------------------------------------------------------
register(
    "ffi_search_tail",
    file="searchlite-ffi/src/lib.rs",
    start=r"^\s*if out_json_buf\.is_null\(\) \|\| buf_cap == 0 \{",
    end=r"^\}",
    subst=[(r"let encoded = serde_json::to_string\(&res\)[^;]*;", "")],
    prefix=("/// SLICE (regenerated from the current source on every run): the statements of\n"
            "/// `searchlite_search` after the search itself, with the serialized response as a parameter.\n"
            "#[allow(unused_unsafe)]\n"
            "unsafe fn slice_search_tail(encoded: String, out_json_buf: *mut c_char, buf_cap: usize) -> usize {"),
    suffix="}",
)


# --------------------------------------------------------------------------
# C21: fragment window of highlight_fragments (between the regex match and the
# re-highlighting of the fragment)
# --------------------------------------------------------------------------
register(
    "highlight_window",
    file="searchlite-core/src/index/highlight.rs",
    start=r"^\s*let (mut )?start = m\.start\(\)",
    end=r"^\s*let fragment = ",
    include_end=True,
    subst=[(r"\bm\.start\(\)", "m_start"), (r"\bm\.end\(\)", "m_end")],
    subst_optional=True,
    prefix=("/// SLICE (regenerated from the current source on every run): the fragment-window\n"
            "/// statements of `highlight_fragments`, with the regex match offsets as parameters.\n"
            "#[allow(unused_variables, unused_mut)]\n"
            "fn slice_fragment_window(text: &str, m_start: usize, m_end: usize, opts: &HighlightOptions<'_>) -> (usize, usize, String) {"),
    suffix="  (start, end, fragment)\n}",
)


register(
    "ffi_search_guard",
    file="searchlite-ffi/src/lib.rs",
    start=r"^\) -> usize \{",
    end=r"^\s*let h = &mut \*handle;",
    include_start=False,
    subst=[],
    prefix=("/// SLICE (regenerated from the current source on every run): the statements of\n"
            "/// `searchlite_search` that run before the handle is dereferenced.\n"
            "#[allow(unused_unsafe, unreachable_code)]\n"
            "unsafe fn slice_search_guard(handle: *mut IndexHandle, query: *const c_char) -> usize {"),
    suffix="  usize::MAX\n}",
)
