"""Source slices (DESIGN 2.3): cut a run of statements out of the CURRENT source
by anchor lines and wrap them in a function so the solver can execute them.

spec (one line in a harness file header):
    //@@ slice: <name> <relative file> -- see SLICES below for the definition
"""
import os
import re


class SliceError(Exception):
    pass


SLICES = {}


def register(name, **kw):
    SLICES[name] = kw


def cut(root, rel, start_pat, end_pat, include_start=True, include_end=False):
    path = os.path.join(root, rel)
    if not os.path.isfile(path):
        raise SliceError("file missing: " + rel)
    lines = open(path).read().split("\n")
    s = [i for i, l in enumerate(lines) if re.search(start_pat, l)]
    if len(s) != 1:
        raise SliceError("start anchor %r matched %d times in %s" % (start_pat, len(s), rel))
    e = [i for i, l in enumerate(lines) if i > s[0] and re.search(end_pat, l)]
    if not e:
        raise SliceError("end anchor %r not found after start in %s" % (end_pat, rel))
    a = s[0] if include_start else s[0] + 1
    b = e[0] + 1 if include_end else e[0]
    return "\n".join(lines[a:b])


def generate(spec, root):
    name = spec.split()[0]
    if name not in SLICES:
        raise SliceError("unknown slice " + name)
    d = SLICES[name]
    body = cut(root, d["file"], d["start"], d["end"], d.get("include_start", True), d.get("include_end", False))
    for pat, rep in d.get("subst", []):
        body, n = re.subn(pat, rep, body)
        if n == 0 and not d.get("subst_optional"):
            raise SliceError("substitution %r did not apply (source changed)" % pat)
    return d["prefix"] + "\n" + body + "\n" + d["suffix"]
