#!/usr/bin/env python3
"""Driver for the solver-based checks of searchlite (see /verif/DESIGN.md).

  ./check <ID> [--tier quick|thorough] [--only h1,h2] [--keep] [--jobs N]
  ./check <ID> --replay /verif/replays/<ID>/<case>.json
  ./check --selftest        (native cross-checks of hand-written predicates)
  ./check --list

Exit status: 0 = every selected harness was decided and held (known findings
are printed as KNOWN-FINDING lines); 1 = a violation that reproduces natively
and is not a listed known finding (a `VIOLATION property=<id> replay=<path>`
line is printed); 2 = inconclusive (compile error, timeout, out of memory,
unwinding bound too small, vacuous harness, counterexample that does not
reproduce natively).  2 is never reported as a pass.
"""
import argparse
import json
import os
import re
import shutil
import signal
import subprocess
import sys
import time

VERIF = os.path.dirname(os.path.dirname(os.path.abspath(__file__)))
REPO = os.environ.get("VERIF_REPO", "/repo")
HARNESS_DIR = os.path.join(VERIF, "harness")
SCRATCH_ROOT = os.environ.get("VERIF_SCRATCH", "/var/tmp")
CACHE_DIR = os.path.join(VERIF, ".cache")
KNOWN = os.path.join(VERIF, "known_findings.json")

sys.path.insert(0, os.path.dirname(os.path.abspath(__file__)))
import slices  # noqa: E402

TIER_BUDGET = {  # per-harness CBMC timeout (s), per-process address space (KB)
    "quick": (900, 12 * 1024 * 1024),
    "thorough": (2700, 14 * 1024 * 1024),
}


def log(msg):
    print(msg, flush=True)


# --------------------------------------------------------------------------
# Harness registry: parsed from the //@ annotations in /verif/harness/*.rs
# --------------------------------------------------------------------------

class Harness:
    def __init__(self, name, meta, file):
        self.name = name
        self.meta = meta
        self.file = file
        self.props = [p.strip() for p in meta.get("props", "").split(",") if p.strip()]
        self.tier = meta.get("tier", "quick")
        self.expect = meta.get("expect", "pass")
        self.timeout = int(meta["timeout"]) if "timeout" in meta else None


class HarnessFile:
    def __init__(self, path):
        self.path = path
        self.base = os.path.basename(path)
        self.header = {}
        self.multi = {}
        self.harnesses = []
        self._parse()

    def _parse(self):
        pending = {}
        with open(self.path) as f:
            lines = f.read().split("\n")
        for i, line in enumerate(lines):
            m = re.match(r"\s*//@@\s*([a-z_]+):\s*(.*)$", line)
            if m:
                k, v = m.group(1), m.group(2).strip()
                self.multi.setdefault(k, []).append(v)
                self.header[k] = v
                continue
            m = re.match(r"\s*//@\s*([a-z_]+):\s*(.*)$", line)
            if m:
                k, v = m.group(1), m.group(2).strip()
                if k in pending:
                    pending[k] += " " + v
                else:
                    pending[k] = v
                continue
            m = re.match(r"\s*(?:pub\s+)?fn\s+([A-Za-z0-9_]+)\s*\(", line)
            if m and pending:
                if "like" in pending:
                    base = [h for h in self.harnesses if h.name == pending["like"]]
                    if base:
                        merged = dict(base[0].meta)
                        merged.update(pending)
                        pending = merged
                self.harnesses.append(Harness(m.group(1), pending, self))
                pending = {}

    @property
    def crate(self):
        return self.header.get("crate", "searchlite-core")

    @property
    def attach(self):
        return self.header["attach"]

    @property
    def modname(self):
        return "verif_" + re.sub(r"[^a-z0-9_]", "_", self.base[:-3])


def load_registry():
    files = []
    for fn in sorted(os.listdir(HARNESS_DIR)):
        if fn.endswith(".rs") and fn != "support.rs":
            hf = HarnessFile(os.path.join(HARNESS_DIR, fn))
            if "attach" in hf.header:
                files.append(hf)
    return files


def with_required(files, hfiles):
    """Add the harness-support files named by `//@@ requires:` lines (transitively)."""
    by_base = {hf.base: hf for hf in files}
    out = list(hfiles)
    i = 0
    while i < len(out):
        for req in out[i].multi.get("requires", []):
            hf = by_base.get(req.strip())
            if hf and hf.base not in [o.base for o in out]:
                out.append(hf)
        i += 1
    return out


def select(files, prop, tier, only=None):
    out = []
    for hf in files:
        for h in hf.harnesses:
            if prop not in h.props:
                continue
            if only and h.name not in only:
                continue
            if not only and tier == "quick" and h.tier != "quick":
                continue
            out.append(h)
    return out


# --------------------------------------------------------------------------
# Scratch copy + attachment
# --------------------------------------------------------------------------

class Scratch:
    def __init__(self, tag):
        self.dir = os.path.join(SCRATCH_ROOT, "verif-%s-%d" % (tag, os.getpid()))
        self.notes = []
        self.slice_failures = []

    def create(self):
        if os.path.exists(self.dir):
            shutil.rmtree(self.dir)
        os.makedirs(self.dir)
        subprocess.check_call(
            ["rsync", "-a", "--exclude", "/target", "--exclude", ".git",
             "--exclude", "/examples", "--exclude", "/docs",
             REPO + "/", self.dir + "/"])
        os.makedirs(os.path.join(self.dir, "verif_harness"))
        cache = os.path.join(CACHE_DIR, "kt")
        kt = os.path.join(self.dir, "kt")
        if os.path.isdir(cache):
            # dependency artefacts built by setup (pure cache: a miss only
            # costs compile time; the crate under test is always recompiled)
            subprocess.call(["cp", "-a", "--reflink=auto", cache, kt])

    def remove(self):
        shutil.rmtree(self.dir, ignore_errors=True)

    def attach(self, hfiles, extra_test=None):
        """Copy harness files into the scratch tree and declare them as child
        modules of the source files they verify.  Returns list of problems."""
        problems = []
        crates = set()
        hdir = os.path.join(self.dir, "verif_harness")
        shutil.copy(os.path.join(HARNESS_DIR, "support.rs"), hdir)
        for sub in ("models",):
            src = os.path.join(VERIF, sub)
            if os.path.isdir(src):
                shutil.copytree(src, os.path.join(hdir, sub), dirs_exist_ok=True)
        for hf in hfiles:
            crates.add(hf.crate)
            dst = os.path.join(hdir, hf.base)
            text = open(hf.path).read()
            # source slices requested by the harness file
            for spec in hf.multi.get("slice", []):
                try:
                    code = slices.generate(spec, self.dir)
                    text += "\n" + code + "\n"
                    self.notes.append("slice %s regenerated from current source" % spec.split()[0])
                except slices.SliceError as e:
                    self.notes.append("slice %s UNAVAILABLE: %s (dependent harnesses become inconclusive)" % (spec.split()[0], e))
                    self.slice_failures.append("slice %s: %s" % (spec.split()[0], e))
                    text += "\n" + slices.unavailable(spec) + "\n"
            if extra_test and extra_test.get("file") == hf.base:
                text += "\n" + extra_test["code"] + "\n"
            with open(dst, "w") as f:
                f.write(text)
            target = os.path.join(self.dir, hf.attach)
            if not os.path.isfile(target):
                problems.append("attach target missing: %s" % hf.attach)
                continue
            # container-model rewrites requested by the harness file
            for spec in hf.multi.get("rewrite", []):
                ok, why = apply_rewrite(self.dir, spec)
                if not ok:
                    problems.append("rewrite %r: %s" % (spec, why))
                else:
                    self.notes.append("rewrite applied: " + spec)
            for spec in hf.multi.get("rewrite_in", []):
                ok, why = apply_rewrite_in(self.dir, spec)
                if not ok:
                    problems.append("rewrite_in %r: %s" % (spec, why))
                else:
                    self.notes.append("rewrite applied inside one function: %s (%s)" % (spec, why))
            with open(target, "a") as f:
                f.write("\n#[cfg(kani)]\n#[path = \"%s\"]\npub(crate) mod %s;\n" % (dst, hf.modname))
        for crate in crates:
            lib = os.path.join(self.dir, crate, "src", "lib.rs")
            sup = open(os.path.join(HARNESS_DIR, "support.rs")).read()
            if crate != "searchlite-core":
                sup = re.sub(r"// BEGIN core-only.*?// END core-only", "", sup, flags=re.S)
            sup_path = os.path.join(hdir, "support_%s.rs" % crate.replace("-", "_"))
            with open(sup_path, "w") as f:
                f.write(sup)
            with open(lib, "a") as f:
                f.write("\n#[cfg(kani)]\n#[path = \"%s\"]\npub mod verif_support;\n" % sup_path)
                if os.path.isfile(os.path.join(hdir, "models", "mod.rs")):
                    f.write("#[cfg(kani)]\n#[path = \"%s\"]\npub mod verif_models;\n"
                            % os.path.join(hdir, "models", "mod.rs"))
        return problems


def apply_rewrite(root, spec):
    """spec: '<relative file> :: <old text> ==> <new text>' — textual rewrite of a
    type path in the scratch copy (container abstraction, DESIGN §2.2)."""
    m = re.match(r"(\S+)\s*::\s*(.*?)\s*==>\s*(.*)$", spec)
    if not m:
        return False, "bad spec"
    rel, old, new = m.group(1), m.group(2), m.group(3)
    old, new = old.replace("\\n", "\n"), new.replace("\\n", "\n")
    path = os.path.join(root, rel)
    if not os.path.isfile(path):
        return False, "file missing"
    text = open(path).read()
    if old not in text and new in text:
        return True, ""  # already applied by another harness file of this run
    if old not in text:
        return False, "anchor text not found (source changed)"
    text = text.replace(old, new)
    with open(path, "w") as f:
        f.write(text)
    return True, ""


def apply_rewrite_in(root, spec):
    """spec: '<relative file> :: <regex of the fn signature line> :: <old text> ==> <new text>'
    — replaces every occurrence of <old text> inside ONE top-level function (from the
    signature line to the next line that is a lone closing brace in column 0).  Robust
    against edits inside the function: zero occurrences is not an error (the compiler
    decides whether the rewritten function still type-checks)."""
    m = re.match(r"(\S+)\s*::\s*(.*?)\s*::\s*(.*?)\s*==>\s*(.*)$", spec)
    if not m:
        return False, "bad spec"
    rel, fn_pat, old, new = m.groups()
    path = os.path.join(root, rel)
    if not os.path.isfile(path):
        return False, "file missing"
    lines = open(path).read().split("\n")
    starts = [i for i, l in enumerate(lines) if re.search(fn_pat, l)]
    if len(starts) != 1:
        return False, "function anchor matched %d times (source changed)" % len(starts)
    end = next((i for i in range(starts[0] + 1, len(lines)) if lines[i] == "}"), None)
    if end is None:
        return False, "end of function not found"
    n = 0
    for i in range(starts[0], end + 1):
        if old in lines[i]:
            n += lines[i].count(old)
            lines[i] = lines[i].replace(old, new)
    with open(path, "w") as f:
        f.write("\n".join(lines))
    return True, "%d occurrence(s)" % n


# --------------------------------------------------------------------------
# Running Kani
# --------------------------------------------------------------------------

def kani_env():
    env = dict(os.environ)
    env["CARGO_NET_OFFLINE"] = "true"
    env.pop("RUSTUP_TOOLCHAIN", None)
    env.pop("RUSTFLAGS", None)
    env["CARGO_TERM_COLOR"] = "never"
    return env


def run_kani(scratch, crate, names, timeout_s, mem_kb, jobs, playback=False, tag="main"):
    """One cargo-kani invocation over `names`.  Returns (rc, stdout, json|None, wall)."""
    res_json = os.path.join(scratch.dir, "result-%s-%s.json" % (crate, tag))
    if os.path.exists(res_json):
        os.remove(res_json)
    cmd = ["cargo", "kani", "-p", crate, "-Z", "stubbing", "-Z", "unstable-options",
           "--target-dir", os.path.join(scratch.dir, "kt"),
           "--harness-timeout", "%ds" % timeout_s,
           "--export-json", res_json]
    if playback:
        cmd += ["-Z", "concrete-playback", "--concrete-playback=print"]
    else:
        cmd += ["--output-format", "terse"]
        if jobs > 1 and len(names) > 1:
            cmd += ["-j", str(min(jobs, len(names)))]
    for n in names:
        cmd += ["--harness", n]
    cmd += ["--exact"] if False else []
    shell = "ulimit -v %d; exec %s" % (mem_kb, " ".join(map(sh_quote, cmd)))
    t0 = time.time()
    overall = timeout_s * max(1, (len(names) + max(1, jobs) - 1) // max(1, jobs)) + 900
    p = subprocess.Popen(["bash", "-c", shell], cwd=scratch.dir, env=kani_env(),
                         stdout=subprocess.PIPE, stderr=subprocess.STDOUT,
                         text=True, start_new_session=True)
    try:
        out, _ = p.communicate(timeout=overall)
    except subprocess.TimeoutExpired:
        os.killpg(p.pid, signal.SIGKILL)
        out, _ = p.communicate()
        out += "\n[engine] overall timeout after %ds\n" % overall
    wall = time.time() - t0
    data = None
    if os.path.isfile(res_json):
        try:
            data = json.load(open(res_json))
        except Exception:
            data = None
    return p.returncode, out, data, wall


def sh_quote(s):
    if re.match(r"^[A-Za-z0-9_./=:,+-]+$", s):
        return s
    return "'" + s.replace("'", "'\\''") + "'"


UNWIND_RE = re.compile(r"unwinding assertion|recursion unwinding")


def summarize(data, out, names):
    """Per-harness verdicts from the exported JSON (stdout as fallback)."""
    verdicts = {}
    by_short = {}
    if data:
        results = data.get("verification_results", {}).get("results", [])
        stats = {c["harness_id"]: c.get("cbmc_stats", {}) for c in data.get("cbmc", [])}
        errs = {e["harness_id"]: e for e in data.get("error_details", [])}
        for r in results:
            hid = r["harness_id"]
            short = hid.split("::")[-1]
            checks = r.get("checks", [])
            failed, undetermined, covers = [], [], []
            n_success = n_unreach = 0
            for c in checks:
                st = (c.get("status") or "").upper()
                cat = c.get("category") or ""
                if cat == "cover" or st in ("SATISFIED", "UNSATISFIABLE", "UNREACHABLE") and cat == "cover":
                    covers.append({"desc": c.get("description"), "status": st})
                    continue
                if st == "SUCCESS":
                    n_success += 1
                elif st == "UNREACHABLE":
                    n_unreach += 1
                elif st == "FAILURE":
                    failed.append(c)
                else:
                    undetermined.append(c)
            v = {
                "harness": short, "harness_id": hid, "kani_status": r.get("status"),
                "duration_s": r.get("duration_ms", 0) / 1000.0,
                "checks_total": len(checks), "checks_success": n_success,
                "checks_unreachable": n_unreach,
                "failed": [slim(c) for c in failed],
                "undetermined": [slim(c) for c in undetermined[:20]],
                "n_undetermined": len(undetermined),
                "covers": covers, "cbmc_stats": stats.get(hid, {}),
                "error": errs.get(hid, {}),
            }
            verdicts[short] = v
            by_short[short] = v
    # harnesses missing from the JSON (timeout / OOM / crash before results)
    for n in names:
        if n not in verdicts:
            verdicts[n] = {"harness": n, "kani_status": "NoResult", "failed": [],
                           "undetermined": [], "n_undetermined": 0, "covers": [],
                           "checks_total": 0, "checks_success": 0,
                           "checks_unreachable": 0, "duration_s": 0.0,
                           "cbmc_stats": {}, "error": {}}
    return verdicts


def slim(c):
    loc = c.get("location") or {}
    return {"id": c.get("id"), "category": c.get("category"),
            "description": c.get("description"), "function": (c.get("function") or "")[:200],
            "file": loc.get("file"), "line": loc.get("line")}


def classify(h, v):
    """-> (state, reason) with state in pass | fail | inconclusive."""
    st = v["kani_status"]
    if st == "NoResult":
        return "inconclusive", "no result (timeout, out of memory or crash)"
    real = [c for c in v["failed"] if not UNWIND_RE.search(c.get("description") or "")
            and (c.get("category") or "") != "unsupported_construct"]
    unwind = [c for c in v["failed"] if UNWIND_RE.search(c.get("description") or "")]
    unsupported = [c for c in v["failed"] if (c.get("category") or "") == "unsupported_construct"]
    if real:
        return "fail", "; ".join(sorted({(c.get("description") or "?")[:120] for c in real})[:4])
    if unwind:
        return "inconclusive", "unwinding bound too small: " + (unwind[0].get("function") or "")
    if unsupported:
        return "inconclusive", "unsupported construct reached: " + (unsupported[0].get("description") or "")
    if v["n_undetermined"]:
        return "inconclusive", "%d checks undetermined" % v["n_undetermined"]
    if str(st).lower() not in ("success", "successful"):
        return "inconclusive", "kani status %s" % st
    bad_cov = [c for c in v["covers"] if c["status"] != "SATISFIED"]
    if bad_cov:
        return "inconclusive", "vacuous: cover not satisfied: %s" % bad_cov[0]["desc"]
    return "pass", ""


# --------------------------------------------------------------------------
# Replay of counterexamples (native, through Kani's concrete playback)
# --------------------------------------------------------------------------

PLAYBACK_RE = re.compile(
    r"Concrete playback unit test for `([^`]+)`:\s*```\n(.*?)```", re.S)


def extract_playback(out, harness):
    tests = []
    for m in PLAYBACK_RE.finditer(out):
        if m.group(1).split("::")[-1] != harness:
            continue
        code = m.group(2)
        kind = re.search(r"Check for `([^`]+)`", code)
        if kind and kind.group(1) == "cover":
            continue  # witnesses of kani::cover!, not counterexamples
        tests.append(code)
    return tests


def native_replay(scratch, hf, harness, test_code, release):
    """Run the generated unit test natively against the real code (no stubs)."""
    m = re.search(r"fn (kani_concrete_playback_[A-Za-z0-9_]+)", test_code)
    tname = m.group(1)
    dst = os.path.join(scratch.dir, "verif_harness", hf.base)
    text = open(dst).read()
    if tname not in text:
        with open(dst, "a") as f:
            # a harness module may shadow `vec!` for the sliced statements (container model);
            # the generated playback test must use the std macro
            f.write("\n" + test_code.replace(" vec![", " std::vec![") + "\n")
    cmd = ["cargo", "kani", "playback", "-Z", "concrete-playback", "-p", hf.crate, "--lib",
           "--", tname, "--nocapture"]
    env = kani_env()
    env["CARGO_TARGET_DIR"] = os.path.join(scratch.dir, "pt-rel" if release else "pt")
    if release:
        # `cargo kani playback` has no --release; the release profile users run is
        # reproduced through cargo's profile environment overrides.
        for prof in ("DEV", "TEST"):
            env["CARGO_PROFILE_%s_OPT_LEVEL" % prof] = "3"
            env["CARGO_PROFILE_%s_DEBUG_ASSERTIONS" % prof] = "false"
            env["CARGO_PROFILE_%s_OVERFLOW_CHECKS" % prof] = "false"
    try:
        p = subprocess.run(cmd, cwd=scratch.dir, env=env, stdout=subprocess.PIPE,
                           stderr=subprocess.STDOUT, text=True, timeout=1800)
        out, rc = p.stdout, p.returncode
    except subprocess.TimeoutExpired as e:
        out, rc = (e.stdout or "") + "\n[engine] replay timeout\n", 124
    ran = re.search(r"test result: (ok|FAILED)\. (\d+) passed; (\d+) failed", out)
    if not ran and re.search(r"\(signal: \d+, SIG(SEGV|ABRT|BUS|ILL)", out) and ("Running " in out or "running 1 test" in out):
        # the test binary was killed by a memory fault: the counterexample crashes the real code
        return "reproduced", out
    if not ran or (int(ran.group(2)) + int(ran.group(3))) == 0:
        return "error", out
    return ("reproduced" if int(ran.group(3)) > 0 else "not-reproduced"), out


def panic_site(scratch, out):
    """'file: source line' of the native panic, used to identify a finding by call site."""
    m = re.search(r"panicked at ([^\s:]+):(\d+):\d+", out)
    if not m:
        return ""
    rel, line = m.group(1), int(m.group(2))
    path = rel if os.path.isabs(rel) else os.path.join(scratch.dir, rel)
    try:
        src = open(path).read().split("\n")[line - 1].strip()
    except Exception:
        src = ""
    rel = rel.replace(scratch.dir + "/", "")
    return "%s: %s" % (rel, src)


# --------------------------------------------------------------------------
# Known findings
# --------------------------------------------------------------------------

def load_known():
    if not os.path.isfile(KNOWN):
        return {"findings": [], "fixed": []}
    return json.load(open(KNOWN))


def match_known(known, prop, harness, failed, site=""):
    """A finding is keyed by property + harness + regex over the failed check
    descriptions (the assertion message names the failing call site/history)."""
    descs = [c.get("description") or "" for c in failed]
    for k in known.get("findings", []):
        if k.get("property") != prop:
            continue
        if k.get("harness") and k["harness"] != harness:
            continue
        pat = re.compile(k.get("match", ".*"))
        real = [d for d in descs if not UNWIND_RE.search(d)]
        if k.get("site") and not re.search(k["site"], site or ""):
            continue
        if real and all(pat.search(d) for d in real):
            return k
    return None


# --------------------------------------------------------------------------
# Evidence
# --------------------------------------------------------------------------

def write_evidence(prop, tier, seed, harnesses, verdicts, states, wall, notes,
                   violations, known_hits, problems):
    path = os.path.join(os.environ.get("VERIF_EVIDENCE_DIR", os.path.join(VERIF, "evidence")), "%s.json" % prop)
    os.makedirs(os.path.dirname(path), exist_ok=True)
    per = []
    total = success = 0
    nontrivial = 0
    solver_s = symex_s = 0.0
    funcs, assumptions = [], []
    for h in harnesses:
        v = verdicts.get(h.name, {})
        st, why = states.get(h.name, ("inconclusive", "not run"))
        total += v.get("checks_total", 0)
        success += v.get("checks_success", 0) + v.get("checks_unreachable", 0)
        sat = [c for c in v.get("covers", []) if c["status"] == "SATISFIED"]
        if st == "pass":
            nontrivial += len({c["desc"] for c in sat})
        cs = v.get("cbmc_stats", {}) or {}
        solver_s += float(cs.get("runtime_decision_procedure_s") or 0)
        symex_s += float(cs.get("runtime_symex_s") or 0)
        for f in h.meta.get("funcs", "").split(","):
            f = f.strip()
            if f and f not in funcs:
                funcs.append(f)
        if h.meta.get("assumes"):
            assumptions.append("%s: %s" % (h.name, h.meta["assumes"]))
        per.append({
            "harness": h.name, "file": "harness/" + h.file.base, "tier": h.tier,
            "verdict": st, "reason": why, "expect": h.expect,
            "functions": h.meta.get("funcs", ""), "bounds": h.meta.get("bounds", ""),
            "symbolic": h.meta.get("symbolic", ""),
            "oracle": h.meta.get("oracle", ""), "outside": h.meta.get("outside", ""),
            "cbmc_checks": v.get("checks_total", 0),
            "cbmc_checks_success": v.get("checks_success", 0),
            "cbmc_checks_unreachable": v.get("checks_unreachable", 0),
            "cbmc_checks_failed": len(v.get("failed", [])),
            "covers": v.get("covers", []),
            "kani_time_s": v.get("duration_s", 0.0),
            "cbmc_stats": cs,
        })
    decided = sum(1 for h in harnesses if states.get(h.name, ("", ""))[0] in ("pass", "fail"))
    ev = {
        "property_id": prop, "tier": tier, "seed": seed, "level": "model_checking",
        "coverage": {
            "evaluations": total,
            "distinct_nontrivial": nontrivial,
            "rule": ("bounded symbolic execution of the real functions (Kani 0.68 -> CBMC 6.11 -> CaDiCaL); "
                     "evaluations = CBMC verification conditions generated for the selected harnesses on this run "
                     "(each decided for ALL values of the symbolic inputs within the harness bounds); "
                     "distinct_nontrivial = number of distinct kani::cover! reachability witnesses (named interesting regions "
                     "of the input space, e.g. 'window starts after a multi-byte character') that the solver showed SATISFIABLE "
                     "inside harnesses decided as holding - a harness with an unsatisfied witness is reported inconclusive"),
            "samples": per,
            "harnesses_selected": len(harnesses), "harnesses_decided": decided,
            "obligations": total, "discharged": success,
            "functions_encoded": funcs,
            "solver_time_s": round(solver_s, 3), "symex_time_s": round(symex_s, 3),
            "exhaustive": False,
            "explanation": ("Verdicts hold for every value of the symbolic inputs inside each harness's stated "
                            "bounds (unwinding assertions on); nothing is claimed outside them."),
            "engine_notes": notes, "problems": problems,
            "known_findings_reported": known_hits,
        },
        "assumptions": [
            "stubs: std::backtrace::Backtrace::capture -> disabled(); alloc::fmt::format -> empty String where the harness says so",
            "Kani compiles the dev profile (debug assertions and overflow checks on)",
            "sizes and dispatch values concrete per harness, contents symbolic (DESIGN.md 1)",
        ] + assumptions,
        "wall_s": round(wall, 2),
        "violations": violations,
    }
    tmp = path + ".tmp"
    with open(tmp, "w") as f:
        json.dump(ev, f, indent=1)
    os.replace(tmp, path)
    return path


# --------------------------------------------------------------------------
# Main check flow
# --------------------------------------------------------------------------

def run_check(prop, tier, only, keep, jobs):
    t0 = time.time()
    seed = int(os.environ.get("VERIF_SEED", "0") or 0)
    files = load_registry()
    harnesses = select(files, prop, tier, only)
    if not harnesses:
        log("no harnesses registered for %s (tier %s)" % (prop, tier))
        return 2
    timeout_s, mem_kb = TIER_BUDGET[tier]
    known = load_known()
    scratch = Scratch(prop)
    states, verdicts, problems = {}, {}, []
    violations, known_hits = 0, []
    exit_code = 0
    try:
        scratch.create()
        hfiles = []
        for h in harnesses:
            if h.file not in hfiles:
                hfiles.append(h.file)
        hfiles = with_required(files, hfiles)
        problems = scratch.attach(hfiles)
        if problems:
            for p in problems:
                log("INCONCLUSIVE %s: %s" % (prop, p))
        for sf in scratch.slice_failures:
            log("[%s] %s -> dependent harnesses will be inconclusive" % (prop, sf))
        by_crate = {}
        for h in harnesses:
            by_crate.setdefault(h.file.crate, []).append(h)
        for crate, hs in by_crate.items():
            names = [h.name for h in hs]
            per_t = max([timeout_s] + [h.timeout or 0 for h in hs])
            log("[%s] kani: crate=%s harnesses=%d tier=%s jobs=%d" % (prop, crate, len(names), tier, jobs))
            rc, out, data, wall = run_kani(scratch, crate, names, per_t, mem_kb, jobs)
            with open(os.path.join(scratch.dir, "kani-%s.log" % crate), "w") as f:
                f.write(out)
            compile_error = "could not compile" in out or "Failed to execute cargo" in out
            if compile_error:
                log("[%s] harness code does not compile against the current source (inconclusive)" % prop)
            if data is None and len(names) > 1 and not compile_error:
                # kani-driver occasionally aborts a whole -j run (e.g. its CBMC output parser
                # panics on one harness): fall back to one invocation per harness so that one
                # bad harness cannot hide the verdicts of the others.
                log("[%s] combined run produced no result file (rc=%s); re-running harnesses one by one" % (prop, rc))
                merged = {"verification_results": {"results": []}, "cbmc": [], "error_details": []}
                outs = [out]
                for n in names:
                    rc1, out1, d1, w1 = run_kani(scratch, crate, [n], per_t, mem_kb, 1, tag="solo-" + n)
                    outs.append(out1)
                    if d1:
                        merged["verification_results"]["results"] += d1.get("verification_results", {}).get("results", [])
                        merged["cbmc"] += d1.get("cbmc", [])
                        merged["error_details"] += d1.get("error_details", [])
                    else:
                        tail = "\n".join(out1.strip().split("\n")[-12:])
                        log("[%s] %s: no result (rc=%s): %s" % (prop, n, rc1, tail[-700:]))
                data, out = merged, "\n".join(outs)
            vs = summarize(data, out, names)
            verdicts.update(vs)
            if data is None:
                tail = "\n".join(out.strip().split("\n")[-25:])
                log("[%s] kani produced no result file (rc=%s):\n%s" % (prop, rc, tail))
                problems.append("kani run failed for crate %s (rc=%s): %s" % (crate, rc, tail[-600:]))
            for h in hs:
                v = vs[h.name]
                st, why = classify(h, v)
                if h.expect == "fail":
                    # vacuity canary: must be reported as failing
                    if st == "fail":
                        st, why = "pass", "canary failed as expected (assertions are reachable)"
                        v["covers"] = v["covers"] or [{"desc": "canary assertion reached", "status": "SATISFIED"}]
                    elif st == "pass":
                        st, why = "inconclusive", "canary unexpectedly passed: harness setup is vacuous"
                states[h.name] = (st, why)
                log("  %-44s %-12s %6.1fs  checks=%d %s" % (h.name, st.upper(), v.get("duration_s", 0.0),
                                                            v.get("checks_total", 0), why[:150]))
        # second pass: counterexamples -> native replay
        for h in harnesses:
            st, why = states.get(h.name, ("inconclusive", "not run"))
            if st != "fail":
                continue
            v = verdicts[h.name]
            log("[%s] extracting counterexample for %s" % (prop, h.name))
            # the trace-producing pass is several times slower than the verdict pass
            rc, out, data, wall = run_kani(scratch, h.file.crate, [h.name],
                                           max(3 * max(timeout_s, h.timeout or 0), 3600), 40 * 1024 * 1024, 1,
                                           playback=True, tag="pb-" + h.name)
            tests = extract_playback(out, h.name)
            try:
                ldir = os.path.join(os.environ.get("VERIF_EVIDENCE_DIR", os.path.join(VERIF, "evidence")), "logs")
                os.makedirs(ldir, exist_ok=True)
                with open(os.path.join(ldir, "%s.playback.log" % h.name), "w") as f:
                    f.write(out[-200000:])
            except Exception:
                pass
            if not tests:
                states[h.name] = ("inconclusive", "counterexample could not be extracted: " + why)
                log("  no concrete playback test produced")
                continue
            outcome = {}
            for release in (False, True):
                r, rout = native_replay(scratch, h.file, h.name, tests[0], release)
                outcome["release" if release else "dev"] = r
                if r == "reproduced" and not outcome.get("site"):
                    outcome["site"] = panic_site(scratch, rout)
                with open(os.path.join(scratch.dir, "replay-%s-%s.log" % (h.name, "rel" if release else "dev")), "w") as f:
                    f.write(rout)
                log("  native replay (%s): %s" % ("release" if release else "dev", r))
            reproduced = outcome.get("dev") == "reproduced" or outcome.get("release") == "reproduced"
            if outcome.get("site"):
                log("  native panic site: " + outcome["site"])
            if not reproduced:
                states[h.name] = ("inconclusive",
                                  "counterexample does not reproduce natively (stub/harness artefact?): " + why)
                continue
            k = match_known(known, prop, h.name, v["failed"], outcome.get("site", ""))
            rdir = os.path.join(os.environ.get("VERIF_REPLAY_DIR", os.path.join(VERIF, "replays")), prop)
            os.makedirs(rdir, exist_ok=True)
            rpath = os.path.join(rdir, h.name + ".json")
            with open(rpath, "w") as f:
                json.dump({"property": prop, "harness": h.name, "harness_file": h.file.base,
                           "crate": h.file.crate, "test_code": tests[0],
                           "failed_checks": v["failed"], "native": outcome,
                           "how": "./check %s --replay %s" % (prop, rpath)}, f, indent=1)
            if k:
                msg = "KNOWN-FINDING: property=%s %s [harness %s]" % (prop, k.get("what", ""), h.name)
                log(msg)
                known_hits.append(msg)
                states[h.name] = ("fail", "known finding: " + k.get("what", ""))
            else:
                violations += 1
                if outcome.get("release") != "reproduced":
                    log("  note: reproduces in the dev profile only (debug assertion / overflow check)")
                log("VIOLATION property=%s replay=%s" % (prop, rpath))
                states[h.name] = ("fail", why)
        inconclusive = [h.name for h in harnesses if states.get(h.name, ("inconclusive", ""))[0] == "inconclusive"]
        if violations:
            exit_code = 1
        elif inconclusive or problems:
            exit_code = 2
            log("[%s] INCONCLUSIVE harnesses: %s" % (prop, ", ".join(inconclusive) or "(setup problems)"))
        if keep or (exit_code == 2 and os.environ.get("VERIF_KEEP_ON_FAIL")):
            log("[%s] scratch kept at %s" % (prop, scratch.dir))
    finally:
        wall = time.time() - t0
        ev = write_evidence(prop, tier, seed, harnesses, verdicts, states, wall,
                            scratch.notes, violations, known_hits, problems)
        if not keep and not (exit_code == 2 and os.environ.get("VERIF_KEEP_ON_FAIL")):
            scratch.remove()
    npass = sum(1 for h in harnesses if states.get(h.name, ("", ""))[0] == "pass")
    log("[%s] tier=%s harnesses=%d held=%d violations=%d known=%d wall=%.0fs evidence=%s exit=%d"
        % (prop, tier, len(harnesses), npass, violations, len(known_hits), wall, ev, exit_code))
    return exit_code


def run_replay(prop, path):
    rec = json.load(open(path))
    files = {hf.base: hf for hf in load_registry()}
    hf = files[rec["harness_file"]]
    scratch = Scratch(prop + "-replay")
    try:
        scratch.create()
        problems = scratch.attach(with_required(list(files.values()), [hf]))
        if problems:
            log("INCONCLUSIVE: " + "; ".join(problems))
            return 2
        res = {}
        for release in (False, True):
            r, out = native_replay(scratch, hf, rec["harness"], rec["test_code"], release)
            res["release" if release else "dev"] = r
            log("native replay (%s): %s" % ("release" if release else "dev", r))
            if r == "error":
                log(out[-3000:])
        if "reproduced" in res.values():
            log("VIOLATION property=%s replay=%s" % (prop, path))
            return 1
        if "error" in res.values():
            return 2
        return 0
    finally:
        scratch.remove()


def run_setup():
    """Build the dependency artefacts once (pure cache, see Scratch.create)."""
    t0 = time.time()
    scratch = Scratch("setup")
    try:
        shutil.rmtree(os.path.join(CACHE_DIR, "kt"), ignore_errors=True)
        scratch.create()
        scratch.attach([])
        for crate in ("searchlite-core", "searchlite-ffi"):
            cmd = ["cargo", "kani", "-p", crate, "-Z", "stubbing", "-Z", "unstable-options",
                   "--only-codegen", "--target-dir", os.path.join(scratch.dir, "kt")]
            p = subprocess.run(cmd, cwd=scratch.dir, env=kani_env(), stdout=subprocess.PIPE,
                               stderr=subprocess.STDOUT, text=True)
            log("[setup] %s: rc=%d %s" % (crate, p.returncode, p.stdout.strip().split("\n")[-1][:200]))
            if p.returncode != 0:
                log(p.stdout[-3000:])
                return 1
        os.makedirs(CACHE_DIR, exist_ok=True)
        subprocess.check_call(["cp", "-a", os.path.join(scratch.dir, "kt"), os.path.join(CACHE_DIR, "kt")])
        log("[setup] dependency cache ready in %.0fs" % (time.time() - t0))
        return 0
    finally:
        scratch.remove()


def main():
    ap = argparse.ArgumentParser()
    ap.add_argument("prop", nargs="?")
    ap.add_argument("--tier", default=os.environ.get("VERIF_TIER", "quick"), choices=["quick", "thorough"])
    ap.add_argument("--only", default="")
    ap.add_argument("--keep", action="store_true")
    ap.add_argument("--jobs", type=int, default=int(os.environ.get("VERIF_JOBS", "4")))
    ap.add_argument("--replay")
    ap.add_argument("--list", action="store_true")
    ap.add_argument("--selftest", action="store_true")
    ap.add_argument("--setup", action="store_true")
    ap.add_argument("--prepare", action="store_true", help="build the scratch copy with harnesses attached, print its path and stop (debugging aid)")
    a = ap.parse_args()
    if a.list:
        for hf in load_registry():
            for h in hf.harnesses:
                print("%-8s %-9s %-44s %s" % (",".join(h.props), h.tier, h.name, hf.base))
        return 0
    if a.setup:
        return run_setup()
    if a.selftest:
        import selftest
        return selftest.main()
    if not a.prop:
        ap.error("property id required")
    if a.replay:
        return run_replay(a.prop, a.replay)
    only = [x for x in a.only.split(",") if x]
    if a.prepare:
        hs = select(load_registry(), a.prop, "thorough", only)
        s = Scratch(a.prop + "-dbg")
        s.create()
        hf = []
        for h in hs:
            if h.file not in hf:
                hf.append(h.file)
        hf = with_required(load_registry(), hf)
        print(s.attach(hf))
        print(s.dir)
        return 0
    return run_check(a.prop, a.tier, only, a.keep, a.jobs)


if __name__ == "__main__":
    sys.exit(main())
