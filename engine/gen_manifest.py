#!/usr/bin/env python3
"""Regenerates /verif/MANIFEST.json from the tables below (run after changing
which properties are claimed).  The harness lists themselves live in the
//@ annotations of /verif/harness/*.rs."""
import json
import os

VERIF = os.path.dirname(os.path.dirname(os.path.abspath(__file__)))

TECH = "bounded symbolic execution of the real Rust code (Kani 0.68 -> CBMC 6.11 -> CaDiCaL SAT), counterexamples replayed natively"

CLAIMED = {
    "C02": ("4.C02", "Log format and recovery kernel: Wal::open/append_*/sync/truncate/truncate_to/len/replay/last_pending_ops "
            "executed symbolically through the real Storage traits (one-file in-memory storage). Decided for every id byte, "
            "every tear offset of a 3-record log, a second crash after a restart that appends behind a torn tail, failed-commit "
            "and rollback truncation. Bounded: <=3 records, 1-byte ids, delete/commit records only.",
            "Trusted: harness storage models append-mode file semantics; stubs (Backtrace::capture, fmt::format, crc32fast SIMD "
            "dispatch, serde_json::from_slice -> Err, str::from_utf8 -> Ok for ASCII ids); Document drop is a no-op (ManuallyDrop "
            "rewrite). Outside: which bytes the OS made durable, IndexWriter::new/commit (hash maps), add-document payloads."),
    "C04": ("4.C04", "Fold kernel of IndexWriter::commit (source slice regenerated from the current source, container models for the "
            "maps): for every sequence of 3 add/delete operations over 2 ids and every initial live set, the fold leaves exactly the "
            "last-added ids pending and tombstones each previously live touched id exactly once.",
            "Trusted: slice extraction by anchor lines; Vec-backed map models; Document payloads abstracted. Outside: visibility, "
            "rollback, several writers, stored projection, compaction, reopen."),
    "C07": ("4.C07", "Evaluation kernels: QueryEvaluator::matches_node/term_group_matches over concrete query-tree shapes "
            "(bool must/should/must_not with symbolic minimum_should_match, should-only, dis_max, nested bool, query_string matcher) "
            "with symbolic per-term document membership, and matches_phrase against a brute-force phrase/slop reference for symbolic positions.",
            "Trusted: Vec-backed container model for the filter-grouping map; one document; depth <= 2. Outside: candidate "
            "generation in search_segment/scan_segment, analyzers, dictionary expansion, query_string parsing, multi-segment behaviour."),
    "C08": ("4.C08", "Query-time filter evaluation over directly constructed columns: passes_filter / passes_filters_at / nested_group_passes "
            "and the FastFieldsReader match functions with symbolic column contents and filter constants, against per-object reference semantics.",
            "Trusted: Vec-backed container models for the two maps; columns built directly (index-time construction of nested columns is outside); "
            "ASCII keywords; 1 document, <=2 objects per path."),
    "C09": ("4.C09", "Executor kernel: component contracts of TermState (advance_to / skip_to_block / upper bounds) and the top-k heap "
            "helpers with symbolic term frequencies; BM25 replaced by a monotone surrogate.",
            "Trusted: bm25 stub (any deterministic tf-monotone scorer); <=2 terms x <=2 postings. Outside: real BM25 numerics, long lists, "
            "score_adjust interaction unless the differential harness is listed in evidence."),
    "C10": ("4.C10", "Ordering kernels: SortKey::cmp / SortKeyPart::cmp / compare_* equal a specification comparator (missing last in both "
            "directions, desc reverses, ties by segment then doc) for every value incl. NaN/-0 and every direction; antisymmetry, transitivity; "
            "pick_numeric returns min for asc / max for desc over 0..3 values.",
            "Bounded: 2-3 keys x 2 parts, 1-byte keyword parts, finite f64 field values. Outside: that keys are built from the right column "
            "values, BM25 numerics, function/script score values."),
    "C11": ("4.C11", "Cursor codec and top-k kernels: score-cursor encode/decode round trip for every generation/score bits/segment/doc/returned, "
            "rejection of stale generations and over-cap advances, push_ranked keeps exactly the best `limit` keys; shares the strict-total-order "
            "harnesses of C10.",
            "Bounded: fixed 42-char score cursor, 4 hits, limit <= 3. Outside: the page loop in search (limit+1 fetch, saw_cursor, "
            "total_hits_estimate), sort cursors (serde_json payload)."),
    "C12": ("4.C12", "Merge kernels only: merge_stats (count/min/max/sum independent of how 4 values are split over 2 segments, both merge orders) "
            "and exact-mode QuantileState push/merge/percentile/percentile_rank (merge of per-segment states equals a single state).",
            "Bounded: <=4 values; integer-valued f64 for sums. Outside: every bucket aggregation (hash-map and JSON based), m2/variance, t-digest mode."),
    "C16": ("4.C16", "Request-string kernels never panic: hex_decode and PaginationCursor::decode on every well-formed UTF-8 string of the bounded "
            "lengths, char_prefix, wildcard/regex literal prefixes, varint decoder on arbitrary bytes.",
            "Bounded: 3-6 byte strings. Outside: the full search pipeline, regex/wildcard compilation, script tokenizer, aggregation config."),
    "C17": ("4.C17", "Log-record checksum and decoders: every single-byte change of a 3-record log is detected by Wal::replay (only the intact "
            "prefix is returned, never a different operation, no panic); truncation at every offset; varint round trip and garbage tolerance.",
            "Trusted: crc32fast portable path (SIMD path assumed equivalent). Outside: verify_checksums / SegmentReader::open ordering, postings, "
            "fast-field and docstore decoders, manifest JSON."),
    "C19": ("4.C19", "Score-combination kernel only: combine_rescore_scores equals the documented formula bit-for-bit in all five modes for every pair of finite scores.",
            "Outside: the window, min_score drops and the re-sort (inline in rescore_hits over real segments)."),
    "C21": ("4.C21", "Fragment-window statements of highlight_fragments (source slice regenerated on every run) for every well-formed UTF-8 text of "
            "6 bytes, every match on char boundaries and every fragment_size >= 2*match: fragment non-empty, a substring containing the match, <= fragment_size.",
            "Trusted: slice extraction by anchor lines; regex returns a non-empty match on char boundaries. Outside: which terms match, tag insertion, materialize_hit."),
    "C22": ("4.C22", "Prefix and edit-distance kernels: char_prefix returns the first min(len, chars) characters of every 4-byte UTF-8 string without "
            "panicking; bounded_levenshtein against the textbook DP with one symbolic string.",
            "Outside: dictionary scan, doc_freq, scan cap, segment independence, option ordering (inline closure over a hash map)."),
    "C26": ("4.C26", "Bounded copy at the end of searchlite_search (source slice) against an exact-size heap buffer for capacities below, at and above "
            "the response length: no out-of-bounds access, ret = min(len, cap-1), NUL terminated, prefix preserved, nothing written past the NUL; "
            "null buffer / zero capacity write nothing; null handle/query guard; closing a null handle.",
            "Trusted: slice extraction; response modelled as an arbitrary byte string. Outside: everything between the guards and the tail "
            "(kani-compiler 0.68 crashes on the code reachable from Index::open / search)."),
    "C30": ("4.C30", "Key-ordering kernel: CompositeKey::cmp / CompositeKeyPart::cmp is a strict total order consistent with equality for every "
            "term byte / f64 bit pattern (antisymmetric, transitive, Equal iff identical), histogram keys numerically ordered, first source dominates.",
            "Bounded: 3 keys x 2 parts, 1-byte strings. Outside: finalize_composite's after filter / size truncation / after_key presence and the "
            "JSON round trip of keys (serde_json maps)."),
}

NOT_APPLICABLE = {
    "C01": "every crash point of a real file system under IndexWriter::commit / Index::compact / SegmentWriter (std HashMap, BTreeMap, serde_json, Uuid, Utc::now, FsStorage syscalls): none of it can be encoded by Kani/CBMC (a 2-element hash map alone does not terminate); the log-recovery part is decided under C02",
    "C03": "a symbolic fault schedule would suit the technique, but the function that must run under it is IndexWriter::commit / Index::compact (hash maps, B-tree, serde_json, Uuid, clock) - out of reach as real code; the error branch is inline and cannot be sliced meaningfully",
    "C05": "quantifies over thread schedules; Kani/CBMC has no thread model for Rust (spawn unsupported)",
    "C06": "quantifies over reader/committer interleavings (RwLock, file handles); no concurrency support in Kani",
    "C13": "the mechanism (accept closure / collector streaming / cursor filtering) is inline in search_segment and scan_segment over real segments, and the executor (wand.rs) does not terminate under CBMC at even 2 terms x 1 posting (drop glue of posting vectors through the heap)",
    "C14": "whole-index behaviour: compaction re-ingests stored JSON through SegmentWriter (hash maps, serde_json, files)",
    "C15": "both sides (Schema::validate_document, collect_document/collect_nested) work on BTreeMap<String, serde_json::Value> documents and hashbrown maps with format!-built paths",
    "C18": "collapse_hits / resort_hits / collapse_value are IndexReader methods over real segments and a BTreeMap<String, Vec<_>>",
    "C20": "the explain/profile paths are inline in IndexReader::search / search_segment over real segments; the executor differential does not terminate under CBMC",
    "C23": "tokio/axum async HTTP handlers over sockets; Kani has no async runtime or socket model",
    "C24": "tokio/axum async HTTP handlers and middleware; no async/socket model",
    "C25": "a process-spawning CLI, an HTTP server and whole searches behind each entry point",
    "C27": "searchlite-wasm is compiled only for wasm32 and is async code over IndexedDB / JS FFI",
    "C28": "a property of path strings stored in the manifest and of the file system (copy/move of a directory)",
    "C29": "feature-gated; HnswIndex (hash sets, heaps, RNG) and the vector path of search are out of reach; the similarity functions alone would be compared with the same formula",
}


def main():
    claimed = [p.strip() for p in open(os.path.join(VERIF, "claimed.txt")).read().split() if p.strip()]
    checks = []
    for pid in claimed:
        ref, text, note = CLAIMED[pid]
        checks.append({
            "property_id": pid,
            "quick_cmd": "./check %s --tier quick" % pid,
            "thorough_cmd": "./check %s --tier thorough" % pid,
            "evidence_file": "/verif/evidence/%s.json" % pid,
            "replay_cmd_template": "./check %s --replay {path}" % pid,
            "engine": "kani-driver",
            "level_claimed": {"category": "model_checking", "text": text, "design_ref": "DESIGN.md " + ref},
            "level_note": note,
            "technique": TECH,
        })
    na = []
    for pid in sorted(set(list(NOT_APPLICABLE) + list(CLAIMED))):
        if pid in claimed:
            continue
        reason = NOT_APPLICABLE.get(pid) or ("kernel harnesses exist but do not yet decide within the time/memory budget on this machine; "
                                             "not claimed rather than reported inconclusively (see DESIGN.md)")
        na.append({"property_id": pid, "reason": reason})
    manifest = {
        "version": 1,
        "setup_cmd": "./check --setup",
        "hooks": {
            "guard": "cfg(kani)",
            "enable": "no hook commits in /repo: harness modules are appended to a scratch copy of the current working tree at check time and compiled only by kani-compiler (which alone sets cfg(kani))",
            "baseline_off_cmd": "cd /repo && cargo nextest run --workspace --no-fail-fast --tool-config-file pb:/w/lib/nextest.toml --profile pb --test-threads 8 --offline || cargo test --workspace --no-fail-fast --offline",
            "source_commits": [],
            "add_only": True,
        },
        "engines": [{
            "name": "kani-driver", "path": "/verif/engine/run.py",
            "serves_properties": claimed,
            "kind_free_text": "scratch copy of /repo + appended #[cfg(kani)] harness modules + cargo kani (CBMC/CaDiCaL) + native replay of counterexamples via Kani concrete playback (dev and release profiles) + evidence writer",
        }],
        "checks": checks,
        "not_applicable": na,
        "notes": "Exit 0 = held within bounds; exit 1 + VIOLATION line = counterexample that reproduces natively; exit 2 = inconclusive (never reported as a pass). Genuine defects found and repaired: see known_findings.json (fixed entries).",
    }
    with open(os.path.join(VERIF, "MANIFEST.json"), "w") as f:
        json.dump(manifest, f, indent=1)
    print("claimed:", claimed)
    print("not applicable:", [n["property_id"] for n in na])


if __name__ == "__main__":
    main()
