#!/usr/bin/env python3
"""Regenerates /verif/MANIFEST.json from the tables below (run after changing
which properties are claimed).  The harness lists themselves live in the
//@ annotations of /verif/harness/*.rs."""
import json
import os

VERIF = os.path.dirname(os.path.dirname(os.path.abspath(__file__)))

TECH = "bounded symbolic execution of the real Rust code (Kani 0.68 -> CBMC 6.11 -> CaDiCaL SAT), counterexamples replayed natively"

CLAIMED = {
    "C02": ("4.C02 / 8.5", "Log format and recovery kernel: Wal::open / append_* / sync / truncate / truncate_to / len / replay executed "
            "symbolically through the real Storage traits (one-file in-memory storage). Decided for every id byte and: every tear "
            "offset of a 3-record log, a second crash after a restart that appends behind a torn tail (tear inside the second and "
            "inside the FIRST record of the log), failed-commit (truncate_to) and rollback (truncate) semantics. Bounded: <=3 "
            "records, 1-byte ids, delete/commit records only.",
            "Trusted: harness storage models append-mode file semantics; stubs (Backtrace::capture, fmt::format, crc32fast SIMD "
            "dispatch, serde_json::from_slice -> Err, str::from_utf8 -> Ok for ASCII ids); dropping a queued Document is a no-op "
            "(ManuallyDrop rewrite of the scratch copy). Outside: which bytes the OS made durable, Wal::last_pending_ops (spec'd "
            "as 'operations after the last commit marker'), IndexWriter::new/commit (hash maps), add-document payloads."),
    "C04": ("8.8", "Fold kernel only: the statements of IndexWriter::commit that fold the queued operations into the set of documents to write, "
            "the tombstones and the live map (source slice regenerated on every run) follow last-writer-wins for every queue of 3 adds/deletes over 2 ids "
            "and every combination of previously live copies: an id is written iff its last queued operation is an add, and then with that version; a live copy "
            "is removed from the live map and tombstoned exactly once (under its own segment, thorough tier) iff any queued operation touches its id; "
            "untouched live copies stay; nothing else is tombstoned.",
            "Trusted: the three std maps replaced by a constant-index finite-map model, the tombstone Vec by an inline vector model; document ids / segment "
            "names, Document, PendingOp and DocAddress replaced by payload mirrors of the same shape (the fold only compares ids for equality and clones / moves "
            "values; with the real String / BTreeMap<String, serde_json::Value> payloads the clone and drop glue does not get through CBMC); slice extraction by anchor lines. "
            "Outside: everything else in the statement - visibility to readers, rollback, several writer handles and the stale live-map reload, "
            "doc_id_from_document, stored projection, compaction, reopen (whole-index behaviour over real segments)."),
    "C07": ("4.C07 / 8.5", "Evaluation kernels: the QueryString arm of QueryEvaluator::matches_node with symbolic per-term document "
            "membership and symbolic minimum_should_match; the default-minimum_should_match logic of the Bool arm (source slice: "
            "should clauses are optional next to must/filter) for all clause combinations; matches_phrase against a brute-force "
            "phrase/slop reference for symbolic positions; resolve_minimum_should_match (count form, thorough).",
            "Trusted: Vec/array-backed container models; source slice extraction by anchor lines. Outside: recursion of the Bool/DisMax "
            "arms into children (heap-allocated query trees do not get through CBMC, measured), candidate generation in search_segment / "
            "scan_segment, analyzers, dictionary expansion, query_string parsing, multi-segment behaviour."),
    "C08": ("4.C08 / 8.5", "Query-time evaluation of LEAF filters over directly constructed columns: inclusive i64/f64 ranges on single- and "
            "multi-valued fields, missing values, unknown / wrongly typed fields, case-insensitive keyword equality and membership, "
            "per-object evaluation of nested columns and the 'some object satisfies the clause' rule of nested_filter_passes.",
            "Trusted: array-backed model of the field map; key builders (format!) replaced by concatenation equivalents; str::to_lowercase "
            "ASCII-only. Outside: And/Or/Not/Nested combinators incl. same-object binding of sibling nested clauses (Filter trees on the "
            "heap do not get through CBMC), index-time construction of nested columns, non-ASCII case folding."),
    "C09": ("4.C09 / 8.5", "Component contracts of the pruning executor: TermState::advance_to lands exactly on the first posting >= target; "
            "skip_to_block never passes a posting >= target and moves in whole blocks; score_current <= block_upper_bound <= upper_bound "
            "at every position for block sizes 1..5 (build_block_meta, upper_bound_tf), also on posting lists that carry stored block metadata "
            "(advance_to, skip_to_block and the bounds must not be misled by skip data built for another block size); the bounded top-k heap "
            "(push_top_k + finalize_heap, source slices over a priority-queue model) returns exactly the k best of 4 candidates in (score desc, doc asc) "
            "order for every score bit pattern; RankedDoc order; dis_max score combination.",
            "Trusted: bm25 replaced by a monotone surrogate (CBMC's ln is nondeterministic); 4 postings, tf 1..3; std BinaryHeap / slice sort replaced by "
            "the fixed-capacity models of /verif/models in the heap harness. Outside: the pivot loop of wand_loop and brute_force themselves (tried end to end "
            "with container models, DESIGN 8.8: the SAT back end runs out of memory at 30 GB for 1 term x 2 postings), hence the score_adjust and "
            "block-bound interactions between iterations; real BM25 numerics."),
    "C10": ("4.C10", "Ordering and score-combination kernels: SortKey::cmp / SortKeyPart::cmp / compare_* equal a specification comparator "
            "(missing last in both directions, desc reverses, ties by segment then doc) for every value incl. NaN/-0 and every direction; "
            "antisymmetry, transitivity (3 keys x 3 parts in the thorough tier); pick_numeric returns min for asc / max for desc; RankedDoc "
            "order; the bounded top-k and page heaps keep exactly the best k / limit entries (source slices over a priority-queue model); "
            "dis_max = max + tie*(sum-max) (source slice).",
            "Bounded: 2-3 keys x 2-3 parts, 1-byte keyword parts, finite f64 field values. Outside: that keys are built from the right column "
            "values, BM25 numerics, function/script score values, recursive ScoreExpr evaluation."),
    "C11": ("4.C11 / 8.5", "Cursor codec kernels (source slices of PaginationCursor::encode/decode and decode_cursor): fields(layout(c)) = c for every "
            "generation/score bits/segment/doc/returned, rejection above the advance cap and of foreign versions, per-chunk hex decoding of ANY "
            "two bytes, stale-generation rejection, the length guard in front of the decode loop (every length 0..64); push_ranked (source slice over a "
            "priority-queue model) keeps exactly the `limit` best of 3 hits of the default sort, so pages neither skip nor repeat; "
            "SortPlan::is_score_only admits the score fast path (compact cursor, per-segment top-k by score) only for a single _score key; "
            "plus the strict-total-order harnesses shared with C10.",
            "Trusted: slice extraction by anchor lines; std BinaryHeap replaced by the fixed-capacity model in the page-heap harness. Outside: the hex text "
            "produced by encode, the page loop in search (limit+1 fetch, saw_cursor, total_hits_estimate, cursor filtering in the accept closure), sort cursors "
            "(serde_json payload), non-default sorts in the page heap."),
    "C12": ("4.C12", "Merge kernels only: merge_stats (count/min/max/sum of a 2|1 segmentation equal a single segment, both merge orders; the m2 / variance term "
            "of a 2|2 segmentation equals n*sum(x^2)-(sum x)^2 exactly, both merge orders) and "
            "exact-mode QuantileState push/merge/percentile/percentile_rank (merged per-segment states equal a single state; 0/50/100th percentile).",
            "Bounded: 3 integer-valued values (4 three-bit values for the variance term; segment sizes powers of two so that the f64 arithmetic is exact). "
            "Outside: every bucket aggregation (hash-map and JSON based), variance for other segment sizes / larger values, interpolated percentiles, t-digest mode."),
    "C16": ("4.C16", "Request-string and number kernels never panic: hex_decode on every well-formed UTF-8 string of 3/4 (6 thorough) bytes, the per-chunk "
            "step, the length guard (every length 0..64: no cursor with more chunks than the decode buffer gets to the loop) and field extraction of PaginationCursor::decode, wrong-length cursors, char_prefix, wildcard/regex literal prefixes, "
            "validate_boost / validate_tie_breaker on every f32, the varint decoder on arbitrary bytes.",
            "Bounded: 3-6 byte strings. Outside: the full search pipeline, regex/wildcard compilation, script tokenizer, aggregation config."),
    "C17": ("4.C17", "Checksums and decoders: crc32 detects every single-byte change of a 4-byte (8 thorough) buffer; Wal::replay returns exactly the "
            "intact prefix for every one-byte change of payload/checksum bytes and for every truncation; on hand-built records with arbitrary "
            "checksum bytes two records differing only in type byte or payload are never both accepted; read_terms rejects every one-byte change of its payload/CRC; varint round trip and garbage tolerance.",
            "Trusted: crc32fast portable path (SIMD path assumed equivalent). Outside: verify_checksums / SegmentReader::open ordering (so the terms "
            "header that only the whole-file checksum protects), postings, fast-field and docstore decoders, manifest JSON."),
    "C19": ("4.C19", "Score-combination kernel only: combine_rescore_scores equals the documented formula bit-for-bit in all five modes for every pair of finite scores.",
            "Outside: the window, min_score drops and the re-sort (inline in rescore_hits over real segments)."),
    "C21": ("4.C21", "Fragment-window statements of highlight_fragments (source slice regenerated on every run) for every well-formed UTF-8 text of "
            "5 bytes (6 and 8 thorough), every match on char boundaries and every fragment_size >= 2*match: fragment non-empty, a substring containing the match, <= fragment_size.",
            "Trusted: slice extraction by anchor lines; regex returns a non-empty match on char boundaries. Outside: which terms match, tag insertion, the fragment loop, materialize_hit."),
    "C22": ("4.C22 / 8.5", "Suggestion kernels: char_prefix returns the first min(len, chars) characters of every 4-byte UTF-8 string; bounded_levenshtein "
            "equals the textbook distance with one symbolic character; distance_weight is in (0,1] and strictly decreasing; the option comparator "
            "(source slice) orders by score descending then text and is a strict weak order.",
            "Trusted: ASCII-only Chars stubs and SmallVec->Vec rewrite (applied to whatever bounded_levenshtein's body currently is) for bounded_levenshtein. Outside: dictionary scan, doc_freq, scan cap, segment independence."),
    "C26": ("4.C26 / 8.5", "searchlite_search's handling of the caller's buffer (source slices: argument guard + everything after the search, composed): for "
            "capacities below, at and above the response length no byte outside the buffer is written (canary zones + CBMC pointer checks), ret = min(len, cap-1), "
            "NUL terminated, prefix preserved; null buffer / zero capacity write nothing; null handle/query return 0; the argument guards of add_json / commit / index_open (source slices) return a negative status / null handle for null arguments; closing a null handle.",
            "Trusted: slice extraction (the generator refuses if the code between guard and search mentions the buffer); response modelled as an arbitrary "
            "byte string. Outside: the search itself (kani-compiler 0.68 crashes on code reachable from Index::open / search)."),
    "C30": ("4.C30", "Key-ordering kernel: CompositeKey::cmp / partial_cmp / CompositeKeyPart::cmp is a strict total order consistent with equality and with "
            "the comparison operators for every term byte / f64 bit pattern; histogram keys numerically ordered; first source dominates.",
            "Bounded: 3 keys x 2 parts, 1-byte strings. Outside: finalize_composite's after filter / size truncation / after_key presence and the JSON round "
            "trip of keys (serde_json maps)."),
}

NOT_APPLICABLE = {
    "C01": "every crash point of a real file system under IndexWriter::commit / Index::compact / SegmentWriter (std HashMap, BTreeMap, serde_json, Uuid, Utc::now, FsStorage syscalls): none of it can be encoded by Kani/CBMC (a 2-element hash map alone does not terminate); the log-recovery part is decided under C02",
    "C03": "a symbolic fault schedule would suit the technique, but the function that must run under it is IndexWriter::commit / Index::compact (hash maps, B-tree, serde_json, Uuid, clock) - out of reach as real code; the error branch is inline and cannot be sliced meaningfully",
    "C05": "quantifies over thread schedules; Kani/CBMC has no thread model for Rust (spawn unsupported)",
    "C06": "quantifies over reader/committer interleavings (RwLock, file handles); no concurrency support in Kani",
    "C13": "the mechanism (accept closure / collector streaming / cursor filtering) is inline in search_segment and scan_segment over real segments, and the executor loops (wand_loop / match_only_loop) do not get through CBMC even with the BinaryHeap / Vec / sort models and ManuallyDrop postings of DESIGN 8.8 (1 term x 2 postings: 3.1 M symbolic-execution steps, SAT back end out of memory at 30 GB)",
    "C14": "whole-index behaviour: compaction re-ingests stored JSON through SegmentWriter (hash maps, serde_json, files)",
    "C15": "both sides (Schema::validate_document, collect_document/collect_nested) work on BTreeMap<String, serde_json::Value> documents and hashbrown maps with format!-built paths",
    "C18": "collapse_hits / resort_hits / collapse_value are IndexReader methods over real segments and a BTreeMap<String, Vec<_>>",
    "C20": "the explain/profile paths are inline in IndexReader::search / search_segment over real segments; the executor differential (stats on/off) would need wand_loop, which does not get through CBMC even with container models (DESIGN 8.8)",
    "C23": "tokio/axum async HTTP handlers over sockets; Kani has no async runtime or socket model",
    "C24": "tokio/axum async HTTP handlers and middleware; no async/socket model",
    "C25": "a process-spawning CLI, an HTTP server and whole searches behind each entry point",
    "C27": "searchlite-wasm is compiled only for wasm32 and is async code over IndexedDB / JS FFI",
    "C28": "a property of path strings stored in the manifest and of the file system (copy/move of a directory)",
    "C29": "feature-gated; HnswIndex (hash sets, heaps, RNG) and the vector path of search are out of reach; the similarity functions alone would be compared with the same formula",
}


def main():
    claimed = [p.strip() for p in open(os.path.join(VERIF, "claimed.txt")).read().split() if p.strip()]
    checks = []
    for pid in claimed:
        ref, text, note = CLAIMED[pid]
        checks.append({
            "property_id": pid,
            "quick_cmd": "./check %s --tier quick" % pid,
            "thorough_cmd": "./check %s --tier thorough" % pid,
            "evidence_file": "/verif/evidence/%s.json" % pid,
            "replay_cmd_template": "./check %s --replay {path}" % pid,
            "engine": "kani-driver",
            "level_claimed": {"category": "model_checking", "text": text, "design_ref": "DESIGN.md " + ref},
            "level_note": note,
            "technique": TECH,
        })
    na = []
    for pid in sorted(set(list(NOT_APPLICABLE) + list(CLAIMED))):
        if pid in claimed:
            continue
        reason = NOT_APPLICABLE.get(pid) or ("kernel harnesses exist but do not yet decide within the time/memory budget on this machine; "
                                             "not claimed rather than reported inconclusively (see DESIGN.md)")
        na.append({"property_id": pid, "reason": reason})
    manifest = {
        "version": 1,
        "setup_cmd": "./check --setup",
        "hooks": {
            "guard": "cfg(kani)",
            "enable": "no hook commits in /repo: harness modules are appended to a scratch copy of the current working tree at check time and compiled only by kani-compiler (which alone sets cfg(kani))",
            "baseline_off_cmd": "cd /repo && cargo nextest run --workspace --no-fail-fast --tool-config-file pb:/w/lib/nextest.toml --profile pb --test-threads 8 --offline || cargo test --workspace --no-fail-fast --offline",
            "source_commits": [],
            "add_only": True,
        },
        "engines": [{
            "name": "kani-driver", "path": "/verif/engine/run.py",
            "serves_properties": claimed,
            "kind_free_text": "scratch copy of /repo + appended #[cfg(kani)] harness modules + cargo kani (CBMC/CaDiCaL) + native replay of counterexamples via Kani concrete playback (dev and release profiles) + evidence writer",
        }],
        "checks": checks,
        "not_applicable": na,
        "notes": "Exit 0 = held within bounds; exit 1 + VIOLATION line = counterexample that reproduces natively; exit 2 = inconclusive (never reported as a pass). Genuine defects found and repaired: see known_findings.json (fixed entries).",
    }
    with open(os.path.join(VERIF, "MANIFEST.json"), "w") as f:
        json.dump(manifest, f, indent=1)
    print("claimed:", claimed)
    print("not applicable:", [n["property_id"] for n in na])


if __name__ == "__main__":
    main()
