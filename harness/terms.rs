//! Harnesses attached as a child module of searchlite-core/src/index/terms.rs.
//@@ crate: searchlite-core
//@@ attach: searchlite-core/src/index/terms.rs
use super::*;
use crate::verif_support::*;
use std::sync::Arc;

/// `TinyFst::from_terms` builds a BTreeMap (out of reach for CBMC); the harness
/// only looks at Ok/Err, so the success path returns an empty dictionary.
fn stub_from_terms(_terms: &[(String, u64)]) -> TinyFst {
  TinyFst::default()
}

/// `String::from_utf8_lossy` stand-in: the term bytes written by the harness are
/// ASCII and the decoder only reaches this call after the payload CRC matched, so
/// on every feasible path the real function borrows the bytes unchanged; the real
/// one yields a string of symbolic length for the symbolic executor.
fn stub_from_utf8_lossy(v: &[u8]) -> std::borrow::Cow<'_, str> {
  std::borrow::Cow::Borrowed(unsafe { std::str::from_utf8_unchecked(v) })
}

fn corrupt_case(full: &[u8], pos: usize, mask: u8) {
  let mut bytes = full.to_vec();
  bytes[pos] ^= mask;
  let st = MemStorage::new(bytes);
  let p = std::path::PathBuf::new();
  let r = read_terms(&st, &p);
  assert!(r.is_err(), "C17: corrupted terms file accepted");
  std::mem::forget(r);
  std::mem::forget(st);
}

macro_rules! each_pos {
  ($full:expr, $m:expr; $($t:expr),*) => { $( corrupt_case($full, $t, $m); )* };
}

//@ props: C17
//@ tier: quick
//@ funcs: index::terms::write_terms, index::terms::read_terms, util::checksum::checksum, util::varint::{write_u64, read_u64}
//@ symbolic: a terms file holding one 2-byte term (any bytes) with any 64-bit postings offset, written by write_terms; ONE byte xor-ed with any non-zero mask at position 9 (term byte) or 20 (stored CRC); the term-length varint (position 8) changed 2 -> 1
//@ bounds: 1 term of 2 bytes (23-byte file); 2 payload/CRC positions with arbitrary masks + 1 concrete length change (a symbolic length makes the record boundaries symbolic); all other payload/CRC positions in the thorough tier
//@ oracle: the intact file is accepted; every single-byte change of the payload or of the stored checksum makes read_terms return Err (never a different dictionary, never a panic)
//@ assumes: TinyFst::from_terms stubbed (BTreeMap); String::from_utf8_lossy stubbed to a borrow (ASCII terms); crc32fast portable path; harness storage
//@ outside: the 8-byte term-count header, which the payload CRC does not cover (it is protected only by the whole-file checksum in the manifest)
#[kani::proof]
#[kani::unwind(14)]
#[kani::stub(std::backtrace::Backtrace::capture, stub_backtrace)]
#[kani::stub(alloc::fmt::format, stub_format)]
#[kani::stub(crc32fast::Hasher::internal_new_specialized, stub_crc_specialized)]
#[kani::stub(crate::util::fst::TinyFst::from_terms, stub_from_terms)]
#[kani::stub(alloc::string::String::from_utf8_lossy, stub_from_utf8_lossy)]
fn c17_terms_payload_corruption_detected() {
  let t: [u8; 2] = kani::any();
  let off: u64 = kani::any();
  let st = Arc::new(MemStorage::new(Vec::new()));
  let p = std::path::PathBuf::new();
  let mut terms = Vec::with_capacity(1);
  terms.push((unsafe { String::from_utf8_unchecked(vec![t[0] & 0x7f, t[1] & 0x7f]) }, off));
  let w = write_terms(st.as_ref(), &p, &terms);
  assert!(w.is_ok(), "write_terms failed on the harness storage");
  std::mem::forget(w);
  let full = st.bytes().clone();
  // another file layout makes the positions below meaningless: vacuous (inconclusive), never a violation
  kani::assume(full.len() == 23);
  let intact = read_terms(st.as_ref(), &p);
  assert!(intact.is_ok(), "C17: intact terms file rejected");
  std::mem::forget(intact);
  let mask: u8 = kani::any();
  kani::assume(mask != 0);
  each_pos!(&full, mask; 9, 20);
  corrupt_case(&full, 8, 2 ^ 1);
  kani::cover!(mask == 1, "low-bit flip");
  std::mem::forget(terms);
}

//@ like: c17_terms_payload_corruption_detected
//@ tier: thorough
//@ timeout: 2700
//@ symbolic: as c17_terms_payload_corruption_detected at the payload/CRC positions 10, 11, 13..19, 21, 22
//@ bounds: 1 term of 2 bytes (23-byte file); 11 further positions (position 12 and the length change 2 -> 3 made the run exceed 45 minutes)
#[kani::proof]
#[kani::unwind(14)]
#[kani::stub(std::backtrace::Backtrace::capture, stub_backtrace)]
#[kani::stub(alloc::fmt::format, stub_format)]
#[kani::stub(crc32fast::Hasher::internal_new_specialized, stub_crc_specialized)]
#[kani::stub(crate::util::fst::TinyFst::from_terms, stub_from_terms)]
#[kani::stub(alloc::string::String::from_utf8_lossy, stub_from_utf8_lossy)]
fn c17_terms_payload_corruption_all_positions() {
  let t: [u8; 2] = kani::any();
  let off: u64 = kani::any();
  let st = Arc::new(MemStorage::new(Vec::new()));
  let p = std::path::PathBuf::new();
  let mut terms = Vec::with_capacity(1);
  terms.push((unsafe { String::from_utf8_unchecked(vec![t[0] & 0x7f, t[1] & 0x7f]) }, off));
  let w = write_terms(st.as_ref(), &p, &terms);
  assert!(w.is_ok(), "write_terms failed on the harness storage");
  std::mem::forget(w);
  let full = st.bytes().clone();
  kani::assume(full.len() == 23);
  let mask: u8 = kani::any();
  kani::assume(mask != 0);
  each_pos!(&full, mask; 10, 11, 13, 14, 15, 16, 17, 18, 19, 21, 22);
  kani::cover!(mask == 0x80, "high-bit flip");
  std::mem::forget(terms);
}
