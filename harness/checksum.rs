//! Harnesses attached as a child module of searchlite-core/src/util/checksum.rs.
//@@ crate: searchlite-core
//@@ attach: searchlite-core/src/util/checksum.rs
use super::*;
use crate::verif_support::*;

fn flipped<const N: usize>(buf: &[u8; N], pos: usize, mask: u8) -> u32 {
  let mut c = *buf;
  c[pos] ^= mask;
  checksum(&c)
}

//@ props: C17
//@ tier: quick
//@ funcs: util::checksum::checksum (crc32fast, portable table implementation)
//@ symbolic: a 4-byte buffer (any contents); ONE byte at EVERY position xor-ed with any non-zero mask
//@ bounds: 4-byte buffers (8 bytes in the thorough tier)
//@ oracle: every single-byte change changes the checksum - the mechanism behind the whole-file checksums recorded in the manifest; the function is deterministic
//@ assumes: crc32fast CPU-feature dispatch stubbed to the portable implementation (the SIMD one is assumed equivalent)
//@ outside: longer files (the CRC-32 burst-error guarantee is length independent, the solver run is not), verify_checksums and the order checksum-then-parse in SegmentReader::open
#[kani::proof]
#[kani::unwind(8)]
#[kani::stub(crc32fast::Hasher::internal_new_specialized, stub_crc_specialized)]
fn c17_crc_detects_single_byte_change_4() {
  let buf: [u8; 4] = kani::any();
  let mask: u8 = kani::any();
  kani::assume(mask != 0);
  let base = checksum(&buf);
  assert!(checksum(&buf) == base, "C17: checksum is not deterministic");
  assert!(flipped(&buf, 0, mask) != base, "C17: single-byte change not detected (byte 0)");
  assert!(flipped(&buf, 1, mask) != base, "C17: single-byte change not detected (byte 1)");
  assert!(flipped(&buf, 2, mask) != base, "C17: single-byte change not detected (byte 2)");
  assert!(flipped(&buf, 3, mask) != base, "C17: single-byte change not detected (byte 3)");
  kani::cover!(mask == 0x80 && buf[3] == 0, "high bit of a zero byte");
  kani::cover!(base == 0, "a buffer whose checksum is 0 exists");
}

//@ props: C17
//@ tier: thorough
//@ timeout: 2700
//@ funcs: util::checksum::checksum (crc32fast, portable table implementation)
//@ symbolic: an 8-byte buffer (any contents); ONE byte at EVERY position xor-ed with any non-zero mask; one extra trailing byte (truncation by one / extension by one)
//@ bounds: 8-byte buffers
//@ oracle: every single-byte change changes the checksum - the mechanism behind the whole-file checksums recorded in the manifest; the function is deterministic
//@ assumes: crc32fast CPU-feature dispatch stubbed to the portable implementation (the SIMD one is assumed equivalent)
//@ outside: longer files (the CRC-32 burst-error guarantee is length independent, the solver run is not), verify_checksums and the order checksum-then-parse in SegmentReader::open
#[kani::proof]
#[kani::unwind(12)]
#[kani::stub(crc32fast::Hasher::internal_new_specialized, stub_crc_specialized)]
fn c17_crc_detects_single_byte_change() {
  let buf: [u8; 8] = kani::any();
  let mask: u8 = kani::any();
  kani::assume(mask != 0);
  let base = checksum(&buf);
  assert!(checksum(&buf) == base, "C17: checksum is not deterministic");
  assert!(flipped(&buf, 0, mask) != base, "C17: single-byte change not detected (byte 0)");
  assert!(flipped(&buf, 1, mask) != base, "C17: single-byte change not detected (byte 1)");
  assert!(flipped(&buf, 2, mask) != base, "C17: single-byte change not detected (byte 2)");
  assert!(flipped(&buf, 3, mask) != base, "C17: single-byte change not detected (byte 3)");
  assert!(flipped(&buf, 4, mask) != base, "C17: single-byte change not detected (byte 4)");
  assert!(flipped(&buf, 5, mask) != base, "C17: single-byte change not detected (byte 5)");
  assert!(flipped(&buf, 6, mask) != base, "C17: single-byte change not detected (byte 6)");
  assert!(flipped(&buf, 7, mask) != base, "C17: single-byte change not detected (byte 7)");
  kani::cover!(mask == 0x80 && buf[7] == 0, "high bit of a zero byte");
  kani::cover!(base == 0, "a buffer whose checksum is 0 exists");
}
