//! Harnesses attached as a child module of searchlite-core/src/query/sort.rs
//! (private items: SortKeyPart::cmp, compare_*, pick_numeric, ValueSelector).
//@@ crate: searchlite-core
//@@ attach: searchlite-core/src/query/sort.rs
use super::*;
use std::cmp::Ordering;

fn any_order() -> SortOrder {
  if kani::any() {
    SortOrder::Asc
  } else {
    SortOrder::Desc
  }
}

/// kind: 0 = score (never missing), 1 = i64, 2 = f64, 3 = one-byte keyword
fn any_value(kind: u8) -> SortValue {
  if kind == 0 {
    return SortValue::Score(kani::any());
  }
  if kani::any() {
    return SortValue::Missing;
  }
  match kind {
    1 => SortValue::I64(kani::any()),
    2 => SortValue::F64(kani::any()),
    _ => {
      let b: u8 = kani::any();
      kani::assume(b < 0x80);
      SortValue::Str(unsafe { String::from_utf8_unchecked(vec![b]) })
    }
  }
}

fn any_key2(k0: u8, k1: u8, o0: SortOrder, o1: SortOrder) -> SortKey {
  let mut parts: SmallVec<[SortKeyPart; 4]> = SmallVec::new();
  parts.push(SortKeyPart {
    order: o0,
    value: any_value(k0),
  });
  parts.push(SortKeyPart {
    order: o1,
    value: any_value(k1),
  });
  let segment_ord: u32 = kani::any();
  let doc_id: u32 = kani::any();
  SortKey {
    parts,
    segment_ord,
    doc_id,
  }
}

// ---- specification comparator, written from the README / property text ----

fn f32_rank(x: f32) -> i32 {
  // IEEE-754 totalOrder: -NaN < -inf < ... < -0 < +0 < ... < +inf < +NaN
  let b = x.to_bits() as i32;
  if b < 0 {
    b ^ 0x7fff_ffff
  } else {
    b
  }
}

fn f64_rank(x: f64) -> i64 {
  let b = x.to_bits() as i64;
  if b < 0 {
    b ^ 0x7fff_ffff_ffff_ffff
  } else {
    b
  }
}

fn ord3<T: PartialOrd>(a: T, b: T) -> Ordering {
  if a < b {
    Ordering::Less
  } else if a > b {
    Ordering::Greater
  } else {
    Ordering::Equal
  }
}

fn spec_part(order: SortOrder, a: &SortValue, b: &SortValue) -> Ordering {
  let natural = match (a, b) {
    (SortValue::Missing, SortValue::Missing) => return Ordering::Equal,
    // missing values sort last whatever the direction
    (SortValue::Missing, _) => return Ordering::Greater,
    (_, SortValue::Missing) => return Ordering::Less,
    (SortValue::Score(x), SortValue::Score(y)) => ord3(f32_rank(*x), f32_rank(*y)),
    (SortValue::I64(x), SortValue::I64(y)) => ord3(*x, *y),
    (SortValue::F64(x), SortValue::F64(y)) => ord3(f64_rank(*x), f64_rank(*y)),
    (SortValue::Str(x), SortValue::Str(y)) => ord3(x.as_bytes()[0], y.as_bytes()[0]),
    _ => Ordering::Equal,
  };
  match order {
    SortOrder::Asc => natural,
    SortOrder::Desc => natural.reverse(),
  }
}

fn spec_key(a: &SortKey, b: &SortKey) -> Ordering {
  let mut i = 0;
  while i < 2 {
    let o = spec_part(a.parts[i].order, &a.parts[i].value, &b.parts[i].value);
    if o != Ordering::Equal {
      return o;
    }
    i += 1;
  }
  // ties: segment, then document order
  match ord3(a.segment_ord, b.segment_ord) {
    Ordering::Equal => ord3(a.doc_id, b.doc_id),
    o => o,
  }
}

//@ props: C10, C11
//@ tier: quick
//@ funcs: query::sort::SortKey::cmp, query::sort::SortKeyPart::cmp, query::sort::compare_ord, query::sort::compare_f32, query::sort::compare_f64
//@ symbolic: kind (score/i64/f64) and direction of each of 2 key positions; for 2 keys every value (all f32/f64 bit patterns incl. NaN/-0, all i64, missing), segment ordinal, doc id
//@ bounds: 2 keys x 2 parts, numeric and score parts (keyword parts: see c10_sortkey_spec_keyword)
//@ oracle: SortKey::cmp equals the specification comparator (missing last in both directions, desc reverses, ties by segment then doc); cmp is antisymmetric; Equal only for identical (segment, doc)
#[kani::proof]
#[kani::unwind(4)]
fn c10_sortkey_spec_numeric() {
  let k0: u8 = kani::any();
  let k1: u8 = kani::any();
  kani::assume(k0 <= 2 && k1 <= 2);
  let (o0, o1) = (any_order(), any_order());
  let a = any_key2(k0, k1, o0, o1);
  let b = any_key2(k0, k1, o0, o1);
  let got = a.cmp(&b);
  let want = spec_key(&a, &b);
  assert!(got == want, "C10: SortKey::cmp differs from the documented order");
  assert!(b.cmp(&a) == got.reverse(), "C10: SortKey::cmp is not antisymmetric");
  if got == Ordering::Equal {
    assert!(
      a.segment_ord == b.segment_ord && a.doc_id == b.doc_id,
      "C11: two distinct hits compare Equal (pagination could skip or repeat one)"
    );
  }
  kani::cover!(got == Ordering::Less && matches!(a.parts[0].value, SortValue::Missing) == false && matches!(b.parts[0].value, SortValue::Missing), "missing-last case reached");
  kani::cover!(matches!(o0, SortOrder::Desc) && got == Ordering::Less, "descending case reached");
  kani::cover!(got == Ordering::Greater && a.parts[0].cmp(&b.parts[0]) == Ordering::Equal && a.parts[1].cmp(&b.parts[1]) == Ordering::Equal, "tie broken by segment/doc");
}

//@ props: C10, C11
//@ tier: quick
//@ funcs: query::sort::SortKey::cmp, query::sort::SortKeyPart::cmp, query::sort::compare_ord (String instance)
//@ symbolic: two keys of (keyword, i64) parts, any 1-byte ASCII keyword or missing, any i64 or missing, both directions, segment, doc
//@ bounds: 2 keys x 2 parts; keyword values are 1-byte ASCII strings
//@ oracle: same specification comparator as c10_sortkey_spec_numeric
#[kani::proof]
#[kani::unwind(4)]
fn c10_sortkey_spec_keyword() {
  let (o0, o1) = (any_order(), any_order());
  let a = any_key2(3, 1, o0, o1);
  let b = any_key2(3, 1, o0, o1);
  let got = a.cmp(&b);
  let want = spec_key(&a, &b);
  assert!(got == want, "C10: SortKey::cmp differs from the documented order (keyword part)");
  kani::cover!(got == Ordering::Less && matches!(o0, SortOrder::Desc) && matches!(a.parts[0].value, SortValue::Str(_)) && matches!(b.parts[0].value, SortValue::Str(_)), "descending keyword comparison reached");
  std::mem::forget(a);
  std::mem::forget(b);
}

//@ props: C10, C11
//@ tier: quick
//@ funcs: query::sort::SortKey::cmp, query::sort::SortKeyPart::cmp
//@ symbolic: three keys of 2 parts each (score/i64/f64 kinds, both directions), all values
//@ bounds: 3 keys x 2 parts
//@ oracle: transitivity: a<=b and b<=c imply a<=c (strict total order is what makes "skip everything at or before the cursor key" complete and duplicate-free)
#[kani::proof]
#[kani::unwind(4)]
fn c10_sortkey_transitive() {
  let k0: u8 = kani::any();
  let k1: u8 = kani::any();
  kani::assume(k0 <= 2 && k1 <= 2);
  let (o0, o1) = (any_order(), any_order());
  let a = any_key2(k0, k1, o0, o1);
  let b = any_key2(k0, k1, o0, o1);
  let c = any_key2(k0, k1, o0, o1);
  if a.cmp(&b) != Ordering::Greater && b.cmp(&c) != Ordering::Greater {
    assert!(a.cmp(&c) != Ordering::Greater, "C10: SortKey::cmp is not transitive");
    if a.cmp(&b) == Ordering::Less || b.cmp(&c) == Ordering::Less {
      assert!(a.cmp(&c) == Ordering::Less, "C10: SortKey::cmp is not transitive (strict)");
    }
  }
  kani::cover!(a.cmp(&b) == Ordering::Less && b.cmp(&c) == Ordering::Less, "strict chain reached");
}

fn fin(x: f64) -> bool {
  x.is_finite()
}

//@ props: C10
//@ tier: quick
//@ funcs: query::sort::pick_numeric (i64 and f64 instances), ValueSelector::from
//@ symbolic: 0..3 values of a multi-valued numeric field (any i64; any finite f64), requested order
//@ bounds: value lists of length 0..3
//@ oracle: empty list -> Missing; ascending sorts use the minimum value, descending sorts the maximum
//@ assumes: f64 values are finite (JSON numbers cannot be NaN/inf)
#[kani::proof]
#[kani::unwind(5)]
fn c10_pick_numeric_min_max() {
  let n: usize = kani::any();
  kani::assume(n <= 3);
  let order = any_order();
  let sel = ValueSelector::from(order);
  let xs: [i64; 3] = kani::any();
  let fs: [f64; 3] = kani::any();
  kani::assume(fin(fs[0]) && fin(fs[1]) && fin(fs[2]));
  let vi: Vec<i64> = xs[..n].to_vec();
  let vf: Vec<f64> = fs[..n].to_vec();
  let gi = pick_numeric(vi, sel);
  let gf = pick_numeric(vf, sel);
  if n == 0 {
    assert!(matches!(gi, SortValue::Missing), "C10: empty i64 list must be Missing");
    assert!(matches!(gf, SortValue::Missing), "C10: empty f64 list must be Missing");
  } else {
    let (mut lo, mut hi) = (xs[0], xs[0]);
    let (mut flo, mut fhi) = (fs[0], fs[0]);
    let mut i = 1;
    while i < n {
      if xs[i] < lo {
        lo = xs[i];
      }
      if xs[i] > hi {
        hi = xs[i];
      }
      if fs[i] < flo {
        flo = fs[i];
      }
      if fs[i] > fhi {
        fhi = fs[i];
      }
      i += 1;
    }
    let want_i = if matches!(order, SortOrder::Asc) { lo } else { hi };
    let want_f = if matches!(order, SortOrder::Asc) { flo } else { fhi };
    match gi {
      SortValue::I64(v) => assert!(v == want_i, "C10: i64 sort value is not min(asc)/max(desc)"),
      _ => assert!(false, "C10: i64 sort value has wrong kind"),
    }
    match gf {
      SortValue::F64(v) => assert!(v == want_f, "C10: f64 sort value is not min(asc)/max(desc)"),
      _ => assert!(false, "C10: f64 sort value has wrong kind"),
    }
  }
  kani::cover!(n == 3 && xs[0] > xs[1] && xs[1] > xs[2], "3 distinct values, decreasing");
  kani::cover!(n == 0, "empty list");
}

fn any_key3(k: [u8; 3], o: [SortOrder; 3]) -> SortKey {
  let mut parts: SmallVec<[SortKeyPart; 4]> = SmallVec::new();
  parts.push(SortKeyPart {
    order: o[0],
    value: any_value(k[0]),
  });
  parts.push(SortKeyPart {
    order: o[1],
    value: any_value(k[1]),
  });
  parts.push(SortKeyPart {
    order: o[2],
    value: any_value(k[2]),
  });
  SortKey {
    parts,
    segment_ord: kani::any(),
    doc_id: kani::any(),
  }
}

//@ props: C10, C11
//@ tier: thorough
//@ timeout: 2700
//@ funcs: query::sort::SortKey::cmp, query::sort::SortKeyPart::cmp
//@ symbolic: three keys of 3 parts each (score/i64/f64 kinds, both directions, missing values), all values, segment and doc ordinals
//@ bounds: 3 keys x 3 parts (the maximum number of sort keys the property quantifies over)
//@ oracle: antisymmetry, transitivity, Equal only for identical (segment, doc)
#[kani::proof]
#[kani::unwind(5)]
fn c10_sortkey_order_axioms_3x3() {
  let k: [u8; 3] = kani::any();
  kani::assume(k[0] <= 2 && k[1] <= 2 && k[2] <= 2);
  let o = [any_order(), any_order(), any_order()];
  let a = any_key3(k, o);
  let b = any_key3(k, o);
  let c = any_key3(k, o);
  let ab = a.cmp(&b);
  assert!(b.cmp(&a) == ab.reverse(), "C10: SortKey::cmp is not antisymmetric");
  if ab == Ordering::Equal {
    assert!(a.segment_ord == b.segment_ord && a.doc_id == b.doc_id, "C11: two distinct hits compare Equal");
  }
  if ab != Ordering::Greater && b.cmp(&c) != Ordering::Greater {
    assert!(a.cmp(&c) != Ordering::Greater, "C10: SortKey::cmp is not transitive");
  }
  kani::cover!(ab == Ordering::Less && a.parts[0].cmp(&b.parts[0]) == Ordering::Equal && a.parts[1].cmp(&b.parts[1]) == Ordering::Equal, "decided by the third key");
}

fn any_sort_field(kind: u8, order: SortOrder) -> ResolvedSortField {
  // kind: 0 = _score, 1 = an i64 fast field, 2 = a keyword fast field (field names are
  // irrelevant to the question asked here and left empty)
  let field = match kind {
    0 => SortField::Score,
    1 => SortField::I64(String::new()),
    _ => SortField::Keyword(String::new()),
  };
  ResolvedSortField {
    field,
    order,
    selector: ValueSelector::from(order),
  }
}

//@ props: C11
//@ tier: quick
//@ funcs: query::sort::SortPlan::is_score_only (decides whether search takes the score fast path: per-segment top-k by (score, doc) and the compact score cursor, which stores no secondary sort values)
//@ symbolic: sort plans of one and of two keys, each key _score / an i64 field / a keyword field (symbolic), both directions
//@ bounds: 1 and 2 sort keys
//@ oracle: a plan is "score only" iff _score is its single key; a plan with a secondary key must never take the score fast path (its cursor and per-segment top-k would forget the secondary key, so pages repeat / drop tied hits)
//@ outside: how search uses the flag
#[kani::proof]
#[kani::unwind(4)]
fn c11_score_fast_path_only_for_single_score_key() {
  let k0: u8 = kani::any();
  let k1: u8 = kani::any();
  kani::assume(k0 <= 2 && k1 <= 2);
  let mut one = Vec::with_capacity(1);
  one.push(any_sort_field(k0, any_order()));
  let p1 = SortPlan { fields: one, hash: 0 };
  assert!(p1.is_score_only() == (k0 == 0), "C11: a single-key plan is classified wrongly (score fast path)");
  let mut two = Vec::with_capacity(2);
  two.push(any_sort_field(k0, any_order()));
  two.push(any_sort_field(k1, any_order()));
  let p2 = SortPlan { fields: two, hash: 0 };
  if k1 != 0 {
    assert!(!p2.is_score_only(), "C11: a plan with a secondary sort key takes the score fast path (the compact cursor and the per-segment top-k forget the secondary key)");
  }
  kani::cover!(k0 == 0 && k1 == 1, "_score first, then a field");
  std::mem::forget(p1);
  std::mem::forget(p2);
}
