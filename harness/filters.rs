//! Harnesses attached as a child module of searchlite-core/src/query/filters.rs:
//! query-time filter evaluation over directly constructed columns (C08).
//@@ crate: searchlite-core
//@@ attach: searchlite-core/src/query/filters.rs
//@@ requires: fastfields_support.rs
//@@ rewrite: searchlite-core/src/query/filters.rs :: let mut nested: std::collections::HashMap<&str, Vec<&'a Filter>> = ==> let mut nested: crate::verif_models::HashMap<&str, Vec<&'a Filter>> =
//@@ rewrite: searchlite-core/src/query/filters.rs :: std::collections::HashMap::new(); ==> crate::verif_models::HashMap::new();
use super::*;
use crate::index::fastfields::verif_fastfields_support::*;

fn s(x: &str) -> String {
  let mut o = String::with_capacity(x.len());
  o.push_str(x);
  o
}

/// concatenation equivalent of `qualified_field` (format!-based; see fastfields_support)
fn concat_qualified_field(base: &str, field: &str) -> String {
  if base.is_empty() {
    return s(field);
  }
  let mut o = String::with_capacity(base.len() + 1 + field.len());
  o.push_str(base);
  o.push('.');
  o.push_str(field);
  o
}

fn v2<T>(a: T, b: T) -> Vec<T> {
  let mut v = Vec::with_capacity(2);
  v.push(a);
  v.push(b);
  v
}

fn range_i(field: &str, lo: i64, hi: i64) -> Filter {
  Filter::I64Range {
    field: s(field),
    min: lo,
    max: hi,
  }
}

fn nested(path: &str, f: Filter) -> Filter {
  Filter::Nested {
    path: s(path),
    filter: Box::new(f),
  }
}

fn inr(x: i64, lo: i64, hi: i64) -> bool {
  x >= lo && x <= hi
}

// NOTE on shapes: only LEAF filters held on the stack can be evaluated.  `Filter`
// trees keep their children in Box/Vec (heap), where CBMC loses the enum payload
// constants: `filter_matches` is then explored for every variant at every
// recursion level (And/Or/Not/Nested inside each other) and does not finish
// (measured: 900 s timeouts for Not(range), Or([..]) and sibling Nested clauses).

//@ props: C08
//@ tier: quick
//@ funcs: query::filters::passes_filter, filter_matches (leaf arms); index::fastfields::FastFieldsReader::matches_i64_range, matches_f64_range, doc_range
//@ symbolic: a single-valued i64 field (any value or missing), a multi-valued i64 field with 2 values, a single-valued f64 field (finite), and the inclusive bounds of the range filters
//@ bounds: 1 document; 3 flat numeric fields; leaf filters only (range, range on an unknown field, range of the wrong numeric type)
//@ oracle: a range is inclusive and matches when ANY value of a multi-valued field lies inside; a missing value never matches; a field that does not exist (or has another numeric type) never matches
//@ assumes: Vec-backed container model for the field map
//@ outside: And / Or / Not / Nested combinators (see the note above)
#[kani::proof]
#[kani::unwind(6)]
fn c08_flat_numeric_filters() {
  let has_n: bool = kani::any();
  let x: i64 = kani::any();
  let (y0, y1): (i64, i64) = (kani::any(), kani::any());
  let z: f64 = kani::any();
  kani::assume(z.is_finite());
  let (lo, hi): (i64, i64) = (kani::any(), kani::any());
  let (flo, fhi): (f64, f64) = (kani::any(), kani::any());
  kani::assume(flo.is_finite() && fhi.is_finite());
  let mut r = empty_reader();
  add_i64(&mut r, "n", if has_n { Some(x) } else { None });
  add_i64_list(&mut r, "m", v2(y0, y1));
  add_f64(&mut r, "f", Some(z));
  let rn = has_n && inr(x, lo, hi);
  let rm = inr(y0, lo, hi) || inr(y1, lo, hi);
  let rf = z >= flo && z <= fhi;
  let f_n = range_i("n", lo, hi);
  let f_m = range_i("m", lo, hi);
  let f_zz = range_i("zz", lo, hi);
  let f_wrong = range_i("f", lo, hi);
  let ff = Filter::F64Range {
    field: s("f"),
    min: flo,
    max: fhi,
  };
  assert!(passes_filter(&r, 0, &f_n) == rn, "C08: i64 range on a single-valued field");
  assert!(passes_filter(&r, 0, &f_m) == rm, "C08: i64 range must match when any value of a multi-valued field is inside");
  assert!(passes_filter(&r, 0, &ff) == rf, "C08: f64 range must be inclusive");
  assert!(!passes_filter(&r, 0, &f_zz), "C08: range on an unknown field must not match");
  assert!(!passes_filter(&r, 0, &f_wrong), "C08: i64 range on an f64 field must not match");
  assert!(!passes_filter(&r, 1, &f_m), "C08: a document without values must not match");
  kani::cover!(rm && !inr(y0, lo, hi), "only the second value of the multi-valued field matches");
  kani::cover!(has_n && x == hi && rn, "upper bound is inclusive");
  kani::cover!(!has_n, "missing value");
  std::mem::forget(r);
  std::mem::forget(f_n);
  std::mem::forget(f_m);
  std::mem::forget(f_zz);
  std::mem::forget(f_wrong);
  std::mem::forget(ff);
}

/// ASCII-only stand-in for `str::to_lowercase` (the real one walks the Unicode case
/// tables; `case_insensitive_equals` only calls it when one side is not ASCII, which
/// the symbolic executor cannot rule out for symbolic bytes).
fn ascii_to_lowercase(x: &str) -> String {
  let b = x.as_bytes();
  let mut v = Vec::with_capacity(b.len());
  let mut i = 0;
  while i < b.len() {
    v.push(lower(b[i]));
    i += 1;
  }
  unsafe { String::from_utf8_unchecked(v) }
}

fn lower(b: u8) -> u8 {
  if b >= b'A' && b <= b'Z' {
    b + 32
  } else {
    b
  }
}

fn ascii2(b: [u8; 2]) -> String {
  let mut v = Vec::with_capacity(2);
  v.push(b[0]);
  v.push(b[1]);
  unsafe { String::from_utf8_unchecked(v) }
}

fn ci_eq(a: [u8; 2], b: [u8; 2]) -> bool {
  lower(a[0]) == lower(b[0]) && lower(a[1]) == lower(b[1])
}

//@ props: C08
//@ tier: quick
//@ funcs: query::filters::passes_filter, filter_matches (keyword arms); index::fastfields::FastFieldsReader::matches_keyword, matches_keyword_in, case_insensitive_equals
//@ symbolic: two dictionary terms and two filter constants (any 2 ASCII bytes each); the single-valued field holds the second dictionary entry, the multi-valued field both, a third field is missing for the document
//@ bounds: 1 document, dictionary of 2 two-byte ASCII terms (dictionary indices are concrete: a symbolic index makes the String pointer symbolic and CBMC runs out of memory)
//@ oracle: keyword equality and membership ignore ASCII case; any value of a multi-valued field can satisfy the clause; a missing value never matches
//@ assumes: container model; str::to_lowercase replaced by an ASCII-only version (keywords are ASCII; non-ASCII case folding is outside)
#[kani::proof]
#[kani::unwind(6)]
#[kani::stub(str::to_lowercase, ascii_to_lowercase)]
fn c08_keyword_filters_case_insensitive() {
  let d0: [u8; 2] = kani::any();
  let d1: [u8; 2] = kani::any();
  let q0: [u8; 2] = kani::any();
  let q1: [u8; 2] = kani::any();
  kani::assume(d0[0] < 0x80 && d0[1] < 0x80 && d1[0] < 0x80 && d1[1] < 0x80);
  kani::assume(q0[0] < 0x80 && q0[1] < 0x80 && q1[0] < 0x80 && q1[1] < 0x80);
  let mut r = empty_reader();
  add_str(&mut r, "k", v2(ascii2(d0), ascii2(d1)), Some(1));
  add_str(&mut r, "none", v2(ascii2(d0), ascii2(d1)), None);
  add_str_list(&mut r, "t", v2(ascii2(d0), ascii2(d1)), v2(0, 1));
  // a multi-valued field whose document uses only the SECOND dictionary entry (the
  // dictionary is keyed by exact spelling, so it can hold two case variants of one keyword)
  add_str_list(&mut r, "u", v2(ascii2(d0), ascii2(d1)), v2(1, 1));
  let eq = Filter::KeywordEq {
    field: s("k"),
    value: ascii2(q0),
  };
  assert!(passes_filter(&r, 0, &eq) == ci_eq(d1, q0), "C08: keyword equality must ignore case");
  let eq_none = Filter::KeywordEq {
    field: s("none"),
    value: ascii2(q0),
  };
  assert!(!passes_filter(&r, 0, &eq_none), "C08: a missing keyword value must not match");
  let eq_t = Filter::KeywordEq {
    field: s("t"),
    value: ascii2(q0),
  };
  assert!(passes_filter(&r, 0, &eq_t) == (ci_eq(d0, q0) || ci_eq(d1, q0)), "C08: any value of a multi-valued keyword field can match");
  let eq_u = Filter::KeywordEq {
    field: s("u"),
    value: ascii2(q0),
  };
  assert!(passes_filter(&r, 0, &eq_u) == ci_eq(d1, q0), "C08: keyword equality on a multi-valued field must compare every value case-insensitively");
  let isin = Filter::KeywordIn {
    field: s("k"),
    values: v2(ascii2(q0), ascii2(q1)),
  };
  assert!(passes_filter(&r, 0, &isin) == (ci_eq(d1, q0) || ci_eq(d1, q1)), "C08: keyword membership must ignore case");
  kani::cover!(ci_eq(d1, q0) && d1[0] != q0[0], "match that differs in case");
  kani::cover!(!ci_eq(d0, q0) && ci_eq(d1, q0), "second value of the multi-valued field matches");
  kani::cover!(ci_eq(d0, q0) && ci_eq(d1, q0) && d0[0] != d1[0], "dictionary holds two case variants of the keyword");
  std::mem::forget(r);
  std::mem::forget(eq_u);
  std::mem::forget(eq);
  std::mem::forget(eq_none);
  std::mem::forget(eq_t);
  std::mem::forget(isin);
}

//@ props: C08
//@ tier: quick
//@ funcs: query::filters::nested_filter_passes, filter_matches (leaf arms with an object index); index::fastfields::FastFieldsReader::nested_object_count, nested_parents, nested_i64_values
//@ symbolic: a nested path with 2 objects, each holding one x and one y value (any i64); the bounds of two range clauses
//@ bounds: 1 document, 2 objects, 2 properties; one leaf clause per nested filter
//@ oracle: a leaf clause evaluated for object i looks at the values of object i only; a nested clause holds iff SOME object of the path satisfies it; a path without objects never matches
//@ assumes: container model; nested_count_key / nested_parent_key / qualified_field replaced by string-concatenation equivalents (the format! machinery does not terminate in reasonable time)
//@ outside: sibling nested clauses under And binding to the same object, nested paths inside nested paths (Filter trees on the heap, see the note above); index-time construction of the nested columns
#[kani::proof]
#[kani::unwind(18)]
#[kani::stub(crate::index::fastfields::nested_count_key, concat_nested_count_key)]
#[kani::stub(crate::index::fastfields::nested_parent_key, concat_nested_parent_key)]
#[kani::stub(qualified_field, concat_qualified_field)]
fn c08_nested_leaf_per_object() {
  let x: [i64; 2] = kani::any();
  let y: [i64; 2] = kani::any();
  let (a, b, c, d): (i64, i64, i64, i64) = (kani::any(), kani::any(), kani::any(), kani::any());
  let mut r = empty_reader();
  add_nested_count(&mut r, "o", 2);
  add_i64_nested_single(&mut r, "o.x", v2(x[0], x[1]));
  add_i64_nested_single(&mut r, "o.y", v2(y[0], y[1]));
  let fx = range_i("x", a, b);
  let fy = range_i("y", c, d);
  // per-object evaluation binds to that object's values only
  assert!(filter_matches(&r, 0, &fx, "o", Some(0)) == inr(x[0], a, b), "C08: clause for object 0 must look at object 0");
  assert!(filter_matches(&r, 0, &fx, "o", Some(1)) == inr(x[1], a, b), "C08: clause for object 1 must look at object 1");
  assert!(filter_matches(&r, 0, &fy, "o", Some(1)) == inr(y[1], c, d), "C08: second property of object 1");
  assert!(!filter_matches(&r, 0, &fx, "o", Some(2)), "C08: object index out of range must not match");
  // a nested clause holds iff some object satisfies it
  assert!(nested_filter_passes(&r, 0, "", "o", None, &fx) == (inr(x[0], a, b) || inr(x[1], a, b)), "C08: nested clause must hold for some object");
  assert!(nested_filter_passes(&r, 0, "", "o", None, &fy) == (inr(y[0], c, d) || inr(y[1], c, d)), "C08: nested clause on the second property");
  assert!(!nested_filter_passes(&r, 0, "", "p", None, &fx), "C08: nested clause on a path without objects must not match");
  // top-level (unbound) evaluation of a nested column: any object
  assert!(r.matches_i64_range("o.x", 0, a, b) == (inr(x[0], a, b) || inr(x[1], a, b)), "C08: unbound range over a nested column");
  kani::cover!(inr(x[0], a, b) && !inr(x[1], a, b), "only the first object matches");
  kani::cover!(!inr(x[0], a, b) && inr(x[1], a, b), "only the second object matches");
  std::mem::forget(r);
  std::mem::forget(fx);
  std::mem::forget(fy);
}

// A per-object keyword harness (nested_str_values + case-insensitive compare for two
// objects) was tried and times out at 900 s: nested_str_values collects through
// filter_map, so the per-object vectors have symbolic lengths for the symbolic executor.
