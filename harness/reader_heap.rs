//! Harness attached as a child module of searchlite-core/src/api/reader.rs: the
//! bounded page heap `push_ranked` (what decides which hits of a segment / of the
//! merged result make it onto a page).  Its body is cut from the current source and
//! run over the priority-queue model of /verif/models instead of std's BinaryHeap.
//@@ crate: searchlite-core
//@@ attach: searchlite-core/src/api/reader.rs
//@@ slice: reader_push_ranked
use super::*;
use crate::api::types::SortOrder;
use crate::query::sort::{SortKey, SortKeyPart, SortValue};
use crate::verif_models::BinaryHeap as ModelHeap;
use smallvec::SmallVec;

fn rank(x: f32) -> i32 {
  let v = x.to_bits() as i32;
  if v < 0 {
    v ^ 0x7fff_ffff
  } else {
    v
  }
}

/// A hit of the default relevance sort: key = (score descending, segment, doc).
fn any_hit() -> (RankedHit, f32, u32, u32) {
  let score = f32::from_bits(kani::any());
  let seg: u32 = kani::any();
  let doc: u32 = kani::any();
  kani::assume(seg < 4);
  let mut parts: SmallVec<[SortKeyPart; 4]> = SmallVec::new();
  parts.push(SortKeyPart {
    order: SortOrder::Desc,
    value: SortValue::Score(score),
  });
  (
    RankedHit {
      key: SortKey {
        parts,
        segment_ord: seg,
        doc_id: doc,
      },
      score,
      vector_score: None,
      explanation: None,
    },
    score,
    seg,
    doc,
  )
}

/// Specification of the page order for the default sort: higher score first (IEEE
/// total order), then smaller segment ordinal, then smaller doc id.
fn before(a: &(f32, u32, u32), b: &(f32, u32, u32)) -> bool {
  if rank(a.0) != rank(b.0) {
    return rank(a.0) > rank(b.0);
  }
  if a.1 != b.1 {
    return a.1 < b.1;
  }
  a.2 < b.2
}

fn page_case(limit: usize) {
  let (h0, s0, g0, d0) = any_hit();
  let (h1, s1, g1, d1) = any_hit();
  let (h2, s2, g2, d2) = any_hit();
  let spec = [(s0, g0, d0), (s1, g1, d1), (s2, g2, d2)];
  // a (segment, doc) pair identifies a hit: no duplicates reach the heap
  kani::assume(!(g0 == g1 && d0 == d1) && !(g0 == g2 && d0 == d2) && !(g1 == g2 && d1 == d2));
  let mut heap: ModelHeap<RankedHit> = ModelHeap::new();
  slice_push_ranked(&mut heap, h0, limit);
  slice_push_ranked(&mut heap, h1, limit);
  slice_push_ranked(&mut heap, h2, limit);
  let want = if limit < 3 { limit } else { 3 };
  assert!(heap.len() == want, "C11: the page heap does not hold min(limit, candidates) hits");
  // a candidate is kept iff fewer than `limit` candidates precede it in page order
  let mut kept = [false; 3];
  for h in heap.into_iter() {
    let mut i = 0;
    while i < 3 {
      if h.key.segment_ord == spec[i].1 && h.key.doc_id == spec[i].2 {
        kept[i] = true;
      }
      i += 1;
    }
    std::mem::forget(h);
  }
  let mut i = 0;
  while i < 3 {
    let mut ahead = 0usize;
    let mut j = 0;
    while j < 3 {
      if j != i && before(&spec[j], &spec[i]) {
        ahead += 1;
      }
      j += 1;
    }
    assert!(kept[i] == (ahead < limit), "C11: the page heap dropped one of the `limit` best hits or kept a worse one (a page would skip or repeat a hit)");
    i += 1;
  }
  kani::cover!(before(&spec[2], &spec[0]) && before(&spec[2], &spec[1]), "the last hit pushed ranks first");
  kani::cover!(rank(s0) == rank(s1) && g0 == g1, "tie on score and segment decided by doc id");
}

//@ props: C11, C10
//@ tier: quick
//@ funcs: api::reader::push_ranked (slice of the whole body), RankedHit::cmp, SortKey::cmp
//@ symbolic: three hits of the default relevance sort with any score bit pattern, segment < 4, any doc id (distinct (segment, doc) pairs), pushed in a fixed order; limit = 1
//@ bounds: 3 candidates, limit 1
//@ oracle: afterwards the heap holds min(limit, 3) hits and a candidate is kept iff fewer than `limit` candidates precede it in (score desc, segment asc, doc asc) order - the page is exactly the best `limit` hits, so consecutive pages neither skip nor repeat
//@ assumes: std BinaryHeap replaced by the fixed-capacity linear priority-queue model (/verif/models); slice extraction by the function's signature line
//@ outside: the page loop in search (limit+1 fetch, cursor filtering in the accept closure), non-default sorts
#[kani::proof]
#[kani::unwind(6)]
fn c11_page_heap_keeps_limit_best() {
  page_case(1);
}

//@ like: c11_page_heap_keeps_limit_best
//@ symbolic: as c11_page_heap_keeps_limit_best with limit = 0 (nothing may be kept)
//@ bounds: 3 candidates, limit 0
#[kani::proof]
#[kani::unwind(6)]
fn c11_page_heap_limit_zero() {
  page_case(0);
}

