//! Harnesses attached as a child module of searchlite-core/src/index/highlight.rs.
//@@ crate: searchlite-core
//@@ attach: searchlite-core/src/index/highlight.rs
//@@ slice: highlight_window
use super::*;
use crate::verif_support::*;

fn boundary(b: &[u8], i: usize) -> bool {
  i == b.len() || (i < b.len() && b[i] & 0xC0 != 0x80)
}

fn window_case<const N: usize>() {
  let b: [u8; N] = kani::any();
  kani::assume(utf8_ok(&b));
  let text = unsafe { std::str::from_utf8_unchecked(&b) };
  // a regex match: non-empty, on character boundaries, inside the text
  let ms: usize = kani::any();
  let me: usize = kani::any();
  kani::assume(ms < me && me <= N);
  kani::assume(boundary(&b, ms) && boundary(&b, me));
  let fs: usize = kani::any();
  // the property's precondition: fragment size at least twice the matched text
  kani::assume(fs >= 2 * (me - ms) && fs <= 2 * N + 2);
  let opts = HighlightOptions {
    pre_tag: "<",
    post_tag: ">",
    fragment_size: fs,
    number_of_fragments: 1,
  };
  let (start, end, fragment) = slice_fragment_window(text, ms, me, &opts);
  assert!(!fragment.is_empty(), "C21: empty highlight fragment (window edge inside a multi-byte character)");
  assert!(start <= ms && me <= end && end <= N, "C21: fragment window does not contain the match");
  assert!(fragment.len() == end - start, "C21: fragment is not the text inside the window");
  assert!(fragment.len() <= fs, "C21: fragment longer than fragment_size");
  let fb = fragment.as_bytes();
  let mut i = 0;
  while i < fb.len() {
    assert!(fb[i] == b[start + i], "C21: fragment is not a substring of the text");
    i += 1;
  }
  kani::cover!(b[0] >= 0xE0 && ms >= 3 && start > 0, "window starts after a multi-byte character");
  kani::cover!(end < N && b[N - 1] >= 0x80, "window ends before a multi-byte tail");
  std::mem::forget(fragment);
}

//@ props: C21
//@ tier: quick
//@ funcs: index::highlight::highlight_fragments (source slice: from `let start = m.start()...` to `let fragment = ...`)
//@ symbolic: text = every well-formed UTF-8 string of exactly 5 bytes (any mix of 1-4 byte characters); match offsets [ms, me) on character boundaries; fragment_size with fragment_size >= 2*(me-ms)
//@ bounds: 5-byte text, fragment_size <= 12 (6- and 8-byte texts in the thorough tier)
//@ oracle: the fragment is non-empty, is exactly text[start..end], contains the match, and is at most fragment_size bytes long
//@ assumes: the regex engine returns a non-empty match on character boundaries (its documented contract)
//@ outside: which terms match, tag insertion by replace_all, the number_of_fragments loop
#[kani::proof]
#[kani::unwind(8)]
fn c21_fragment_window_utf8_5() {
  window_case::<5>()
}

//@ like: c21_fragment_window_utf8_5
//@ tier: thorough
//@ timeout: 2700
//@ symbolic: text = every well-formed UTF-8 string of exactly 6 bytes; match offsets on character boundaries; fragment_size >= 2*(me-ms)
//@ bounds: 6-byte text, fragment_size <= 14
#[kani::proof]
#[kani::unwind(9)]
fn c21_fragment_window_utf8_6() {
  window_case::<6>()
}

//@ like: c21_fragment_window_utf8_5
//@ tier: thorough
//@ timeout: 2700
//@ symbolic: text = every well-formed UTF-8 string of exactly 8 bytes; match offsets on character boundaries; fragment_size >= 2*(me-ms)
//@ bounds: 8-byte text, fragment_size <= 18
#[kani::proof]
#[kani::unwind(11)]
fn c21_fragment_window_utf8_8() {
  window_case::<8>()
}
