//! Child module of searchlite-core/src/index/fastfields.rs: constructors that let
//! other harness modules build a `FastFieldsReader` directly from column values
//! (its `fields` map is private).  The map type of this file is the Vec-backed
//! container model (hash tables are out of reach for CBMC, DESIGN 2.2).
//@@ crate: searchlite-core
//@@ attach: searchlite-core/src/index/fastfields.rs
//@@ rewrite: searchlite-core/src/index/fastfields.rs :: use std::collections::HashMap; ==> use crate::verif_models::HashMap;
use super::*;

pub(crate) fn empty_reader() -> FastFieldsReader {
  FastFieldsReader {
    fields: HashMap::new(),
  }
}
