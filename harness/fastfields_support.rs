//! Child module of searchlite-core/src/index/fastfields.rs: constructors that let
//! other harness modules build a `FastFieldsReader` directly from column values
//! (its `fields` map and the `Column` enum are private).  The map type of this
//! file is the Vec-backed container model (hash tables are out of reach for
//! CBMC, DESIGN 2.2).  All builders describe ONE document (doc id 0).
//@@ crate: searchlite-core
//@@ attach: searchlite-core/src/index/fastfields.rs
//@@ rewrite: searchlite-core/src/index/fastfields.rs :: use std::collections::HashMap; ==> use crate::verif_models::HashMap;
use super::*;

pub(crate) fn empty_reader() -> FastFieldsReader {
  FastFieldsReader {
    fields: HashMap::new(),
  }
}

fn key(prefix: &str, name: &str) -> String {
  let mut k = String::with_capacity(prefix.len() + name.len());
  k.push_str(prefix);
  k.push_str(name);
  k
}

fn v1<T>(a: T) -> Vec<T> {
  let mut v = Vec::with_capacity(1);
  v.push(a);
  v
}

fn offs(n: usize) -> Vec<u32> {
  // offsets [0, n] : one document holding n entries
  let mut v = Vec::with_capacity(2);
  v.push(0);
  v.push(n as u32);
  v
}

pub(crate) fn add_i64(r: &mut FastFieldsReader, name: &str, v: Option<i64>) {
  r.fields.insert(key("", name), Column::I64(v1(v)));
}

pub(crate) fn add_f64(r: &mut FastFieldsReader, name: &str, v: Option<f64>) {
  r.fields.insert(key("", name), Column::F64(v1(v)));
}

pub(crate) fn add_i64_list(r: &mut FastFieldsReader, name: &str, values: Vec<i64>) {
  let offsets = offs(values.len());
  r.fields.insert(key("", name), Column::I64List { offsets, values });
}

pub(crate) fn add_str(r: &mut FastFieldsReader, name: &str, dict: Vec<String>, idx: Option<u32>) {
  r.fields.insert(key("", name), Column::Str { dict, values: v1(idx) });
}

pub(crate) fn add_str_list(r: &mut FastFieldsReader, name: &str, dict: Vec<String>, values: Vec<u32>) {
  let offsets = offs(values.len());
  r.fields.insert(key("", name), Column::StrList { dict, offsets, values });
}

/// `objects` objects under `path` in document 0.
pub(crate) fn add_nested_count(r: &mut FastFieldsReader, path: &str, objects: u32) {
  r.fields.insert(key("_nested_count:", path), Column::NestedCount(v1(objects)));
}

/// parent object index of each object under `path` (u32::MAX = top level).
pub(crate) fn add_nested_parents(r: &mut FastFieldsReader, path: &str, parents: Vec<u32>) {
  let offsets = offs(parents.len());
  r.fields.insert(key("_nested_parent:", path), Column::NestedParent { offsets, parents });
}

/// One value per object: object i of document 0 holds exactly `values[i]`.
pub(crate) fn add_i64_nested_single(r: &mut FastFieldsReader, name: &str, values: Vec<i64>) {
  let n = values.len();
  let mut object_offsets = Vec::with_capacity(n + 1);
  let mut i = 0;
  while i <= n {
    object_offsets.push(i as u32);
    i += 1;
  }
  r.fields.insert(
    key("", name),
    Column::I64Nested {
      doc_offsets: offs(n),
      object_offsets,
      values,
    },
  );
}

/// One keyword per object: object i of document 0 holds dictionary entry `values[i]`.
pub(crate) fn add_str_nested_single(r: &mut FastFieldsReader, name: &str, dict: Vec<String>, values: Vec<u32>) {
  let n = values.len();
  let mut object_offsets = Vec::with_capacity(n + 1);
  let mut i = 0;
  while i <= n {
    object_offsets.push(i as u32);
    i += 1;
  }
  r.fields.insert(
    key("", name),
    Column::StrNested {
      dict,
      doc_offsets: offs(n),
      object_offsets,
      values,
    },
  );
}

/// Concatenation equivalents of the three `format!`-based key builders (the real
/// `format!` machinery costs 10-15 minutes of symbolic execution per call).
pub(crate) fn concat_nested_count_key(path: &str) -> String {
  key("_nested_count:", path)
}

pub(crate) fn concat_nested_parent_key(path: &str) -> String {
  key("_nested_parent:", path)
}
