//! Harnesses attached as a child module of searchlite-ffi/src/lib.rs.
//@@ crate: searchlite-ffi
//@@ attach: searchlite-ffi/src/lib.rs
//@@ slice: ffi_search_tail
//@@ slice: ffi_search_guard
//@@ slice: ffi_add_json_guard
//@@ slice: ffi_commit_guard
//@@ slice: ffi_open_guard
use super::*;

fn response<const L: usize>() -> (String, [u8; L]) {
  // any well-formed UTF-8 text without NUL bytes (JSON responses carry stored fields and
  // ids, which may hold multi-byte characters)
  let b: [u8; L] = kani::any();
  let mut i = 0;
  while i < L {
    kani::assume(b[i] != 0);
    i += 1;
  }
  kani::assume(crate::verif_support::utf8_ok(&b));
  (unsafe { String::from_utf8_unchecked(b.to_vec()) }, b)
}

/// What `searchlite_search` does with the output buffer for valid handle/query
/// arguments: the argument guard (which may already return), then - the search
/// itself does not look at the buffer (checked textually by the slice
/// generator) - the tail that copies the response.
unsafe fn search_buffer_path(encoded: String, out: *mut c_char, cap: usize) -> usize {
  let dangling = std::ptr::NonNull::<IndexHandle>::dangling().as_ptr();
  let q = b"a\0";
  let g = slice_search_guard(dangling, q.as_ptr() as *const c_char, 10, std::ptr::null(), std::ptr::null(), 0, out, cap);
  if g != usize::MAX {
    std::mem::forget(encoded);
    return g;
  }
  slice_search_tail(encoded, out, cap)
}

const ZONE: usize = 8;

/// Runs guard + tail of `searchlite_search` against a caller buffer of exactly
/// CAP bytes that sits between two 8-byte canary zones inside one allocation, so
/// that a small overrun is an ordinary assertion failure (and reproduces natively)
/// while a larger one leaves the allocation and trips CBMC's pointer checks.
fn tail_case<const L: usize, const CAP: usize>() {
  let (encoded, bytes) = response::<L>();
  let mut arena: Vec<u8> = Vec::with_capacity(CAP + 2 * ZONE);
  let base = arena.as_mut_ptr();
  let mut i = 0;
  while i < CAP + 2 * ZONE {
    unsafe { *base.add(i) = 0xAA };
    i += 1;
  }
  let p = unsafe { base.add(ZONE) };
  let ret = unsafe { search_buffer_path(encoded, p as *mut c_char, CAP) };
  // canaries on both sides of the caller's buffer
  let mut i = 0;
  while i < ZONE {
    assert!(unsafe { *base.add(i) } == 0xAA, "C26: wrote before the caller's buffer");
    assert!(unsafe { *base.add(ZONE + CAP + i) } == 0xAA, "C26: wrote past the end of the caller's buffer");
    i += 1;
  }
  if CAP == 0 {
    assert!(ret == 0, "C26: capacity 0 must return 0");
    std::mem::forget(arena);
    return;
  }
  let want = if L < CAP - 1 { L } else { CAP - 1 };
  assert!(ret == want, "C26: return value is not min(len, cap-1)");
  let mut i = 0;
  while i < CAP {
    let got = unsafe { *p.add(i) };
    if i < ret {
      assert!(got == bytes[i], "C26: buffer is not a prefix of the response");
    } else if i == ret {
      assert!(got == 0, "C26: missing NUL terminator");
    } else {
      assert!(got == 0xAA, "C26: wrote past the terminator");
    }
    i += 1;
  }
  std::mem::forget(arena);
}

//@ props: C26
//@ tier: quick
//@ funcs: searchlite_ffi::searchlite_search (source slice: the statements from the `out_json_buf.is_null() || buf_cap == 0` test to the end of the function)
//@ symbolic: response = any well-formed UTF-8 text of 5 bytes without NUL (1-4 byte characters); caller buffer = exactly CAP bytes between two 8-byte canary zones of one heap allocation, for CAP in {0,1,2,5,6,7}
//@ bounds: response length 5, capacities 0,1,2,5,6,7 (below, at and above the response length)
//@ oracle: no write outside the caller's buffer (canary bytes intact; beyond the canaries CBMC's pointer checks); returns min(len, cap-1); buf[..ret] is a prefix of the response; buf[ret] = 0; nothing after it is written; cap 0 returns 0 and writes nothing
//@ assumes: the slice replaces `serde_json::to_string(&res)` by an arbitrary string (the response bytes)
#[kani::proof]
#[kani::unwind(25)]
fn c26_search_tail_bounded_copy() {
  tail_case::<5, 0>();
  tail_case::<5, 1>();
  tail_case::<5, 2>();
  tail_case::<5, 5>();
  tail_case::<5, 6>();
  tail_case::<5, 7>();
  kani::cover!(true, "all capacities executed");
}

//@ props: C26
//@ tier: quick
//@ funcs: searchlite_ffi::searchlite_search (source slice, as above)
//@ symbolic: response = any well-formed UTF-8 text of 3 bytes; out_json_buf = NULL with any capacity
//@ bounds: response length 3
//@ oracle: a null output buffer returns 0 without dereferencing it
#[kani::proof]
#[kani::unwind(6)]
fn c26_search_tail_null_buffer() {
  let (encoded, _b) = response::<3>();
  let cap: usize = kani::any();
  let ret = unsafe { search_buffer_path(encoded, std::ptr::null_mut(), cap) };
  assert!(ret == 0, "C26: null buffer must return 0");
  kani::cover!(cap > 3, "capacity larger than the response");
}

//@ props: C26
//@ tier: quick
//@ funcs: searchlite_ffi::searchlite_search, searchlite_add_json, searchlite_commit, searchlite_index_open (source slices: the statements before the first pointer dereference), searchlite_ffi::searchlite_index_close (real function)
//@ symbolic: which of handle / query is null (the other is a dangling non-null pointer that must not be dereferenced)
//@ bounds: 3 null patterns
//@ oracle: search: a null handle or null query returns 0 before anything is dereferenced; add_json / commit: a null handle or json returns a negative status; index_open: a null path returns a null handle; closing a null handle is a no-op
//@ outside: the real searchlite_search / add_json / commit / index_open cannot be compiled by kani-compiler 0.68 (internal compiler error in intrinsics.rs on code reachable from Index::open / IndexReader::search), so their guards are checked on this slice only
#[kani::proof]
#[kani::unwind(4)]
fn c26_null_arguments_rejected() {
  let dangling = std::ptr::NonNull::<IndexHandle>::dangling().as_ptr();
  let q = b"a\0";
  unsafe {
    let mut out = [0x55u8; 4];
    let o = out.as_mut_ptr() as *mut c_char;
    let cap: usize = kani::any();
    kani::assume(cap <= 4);
    let n = std::ptr::null();
    assert!(slice_search_guard(std::ptr::null_mut(), q.as_ptr() as *const c_char, 10, n, n, 0, o, cap) == 0, "C26: null handle must return 0");
    assert!(slice_search_guard(dangling, n, 10, n, n, 0, o, cap) == 0, "C26: null query must return 0");
    assert!(slice_search_guard(std::ptr::null_mut(), n, 10, n, n, 0, o, cap) == 0, "C26: null handle and query must return 0");
    assert!(out[0] == 0x55 && out[3] == 0x55, "C26: output buffer touched by a rejected call");
    let g = slice_search_guard(dangling, q.as_ptr() as *const c_char, 10, n, n, 0, o, 4);
    assert!(g == usize::MAX || g == 0, "C26: argument guard returned a length without running the search");
    searchlite_index_close(std::ptr::null_mut());
    // the other entry points: null arguments give a negative status / a null handle
    assert!(slice_add_json_guard(std::ptr::null_mut(), q.as_ptr() as *const c_char, 1) < 0, "C26: add_json with a null handle must return a negative status");
    assert!(slice_add_json_guard(dangling, n, 1) < 0, "C26: add_json with null json must return a negative status");
    assert!(slice_add_json_guard(dangling, q.as_ptr() as *const c_char, 1) == c_int::MAX, "add_json guard rejected valid arguments");
    assert!(slice_commit_guard(std::ptr::null_mut()) < 0, "C26: commit with a null handle must return a negative status");
    assert!(slice_commit_guard(dangling) == c_int::MAX, "commit guard rejected a valid handle");
    assert!(slice_open_guard(n, kani::any()).is_null(), "C26: index_open with a null path must return a null handle");
    assert!(!slice_open_guard(q.as_ptr() as *const c_char, kani::any()).is_null(), "open guard rejected a valid path");
  }
  kani::cover!(true, "guards executed");
}

//@ like: c26_search_tail_bounded_copy
//@ tier: thorough
//@ symbolic: response = any well-formed UTF-8 text of 8 bytes without NUL; capacities 3, 4, 7, 8, 9, 10 (well below, just below, at and above the response length)
//@ bounds: response length 8, capacities 3, 4, 7, 8, 9, 10 (all twelve capacities 0..11 in one harness exceed the 14 GB address-space limit)
#[kani::proof]
#[kani::unwind(30)]
fn c26_search_tail_longer_response() {
  tail_case::<8, 3>();
  tail_case::<8, 4>();
  tail_case::<8, 7>();
  tail_case::<8, 8>();
  tail_case::<8, 9>();
  tail_case::<8, 10>();
  kani::cover!(true, "all capacities executed");
}
