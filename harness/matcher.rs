//! Harnesses attached as a child module of searchlite-core/src/api/reader.rs:
//! boolean evaluation of compiled query trees (QueryEvaluator::matches_node).
//@@ crate: searchlite-core
//@@ attach: searchlite-core/src/api/reader.rs
//@@ requires: fastfields_support.rs
//@@ slice: bool_should_default
//@@ rewrite: searchlite-core/src/query/filters.rs :: let mut nested: std::collections::HashMap<&str, Vec<&'a Filter>> = ==> let mut nested: crate::verif_models::HashMap<&str, Vec<&'a Filter>> =
//@@ rewrite: searchlite-core/src/query/filters.rs :: std::collections::HashMap::new(); ==> crate::verif_models::HashMap::new();
use super::*;
use crate::index::fastfields::verif_fastfields_support::empty_reader;
use crate::query::planner::QueryStringMatcher;

/// Term i matches document 0 iff m[i]: its doc list is [0] (match) or [1] (no match).
fn term_docs<const N: usize>(m: &[bool; N]) -> Vec<Vec<DocId>> {
  let mut v = Vec::with_capacity(N);
  let mut i = 0;
  while i < N {
    let mut d = Vec::with_capacity(1);
    d.push(if m[i] { 0 } else { 1 });
    v.push(d);
    i += 1;
  }
  v
}

fn groups<const N: usize>() -> Vec<Vec<usize>> {
  let mut v = Vec::with_capacity(N);
  let mut i = 0;
  while i < N {
    let mut g = Vec::with_capacity(1);
    g.push(i);
    v.push(g);
    i += 1;
  }
  v
}

/// Builds a Vec by `push` (typed stores keep enum discriminants constant for the
/// symbolic executor; `vec![..]` moves the elements with a memcpy, after which
/// `matches_node` is explored for every variant at every level).
fn v1(a: QueryMatcher) -> Vec<QueryMatcher> {
  let mut v = Vec::with_capacity(1);
  v.push(a);
  v
}

fn v2(a: QueryMatcher, b: QueryMatcher) -> Vec<QueryMatcher> {
  let mut v = Vec::with_capacity(2);
  v.push(a);
  v.push(b);
  v
}

fn v3(a: QueryMatcher, b: QueryMatcher, c: QueryMatcher) -> Vec<QueryMatcher> {
  let mut v = Vec::with_capacity(3);
  v.push(a);
  v.push(b);
  v.push(c);
  v
}

fn u2(a: usize, b: usize) -> Vec<usize> {
  let mut v = Vec::with_capacity(2);
  v.push(a);
  v.push(b);
  v
}

fn u1(a: usize) -> Vec<usize> {
  let mut v = Vec::with_capacity(1);
  v.push(a);
  v
}

fn any_msm() -> Option<usize> {
  if kani::any() {
    None
  } else {
    let n: usize = kani::any();
    kani::assume(n <= 3);
    Some(n)
  }
}

fn bool_node(must: Vec<QueryMatcher>, should: Vec<QueryMatcher>, must_not: Vec<QueryMatcher>, msm: Option<usize>) -> QueryMatcher {
  QueryMatcher::Bool {
    must,
    should,
    must_not,
    filter: Vec::new(),
    minimum_should_match: msm,
  }
}

fn eval<const N: usize>(node: &QueryMatcher, m: &[bool; N]) -> bool {
  let docs = term_docs(m);
  let lists = groups::<N>();
  let ff = empty_reader();
  let ev = QueryEvaluator {
    matcher: node,
    term_docs: &docs,
    term_group_lists: &lists,
    phrase_postings: &[],
    fast_fields: &ff,
  };
  let r = ev.matches(0);
  std::mem::forget(docs);
  std::mem::forget(lists);
  std::mem::forget(ff);
  r
}

fn some_nodes(n: usize) -> Vec<QueryMatcher> {
  let mut v = Vec::with_capacity(2);
  let mut i = 0;
  while i < n {
    v.push(QueryMatcher::MatchAll);
    i += 1;
  }
  v
}

fn should_case(n_must: usize, n_should: usize, has_filter: bool) {
  let msm = any_msm();
  let matched: usize = kani::any();
  kani::assume(matched <= n_should);
  let must = some_nodes(n_must);
  let should = some_nodes(n_should);
  let mut filter: Vec<Filter> = Vec::with_capacity(1);
  if has_filter {
    filter.push(Filter::And(Vec::new()));
  }
  let got = slice_bool_should_default(&msm, &must, &should, &filter, matched);
  let need = match msm {
    Some(n) => n,
    // documented default: should clauses are optional whenever a must or filter
    // clause is present (and trivially when there are none); otherwise one must match
    None => {
      if n_should > 0 && n_must == 0 && !has_filter {
        1
      } else {
        0
      }
    }
  };
  assert!(got == (matched >= need), "C07: bool query requires the wrong number of should clauses");
  std::mem::forget(must);
  std::mem::forget(should);
  std::mem::forget(filter);
}

//@ props: C07
//@ tier: quick
//@ funcs: api::reader::QueryEvaluator::matches_node (source slice: default for minimum_should_match and the final test of the Bool arm)
//@ symbolic: minimum_should_match in {absent, 0..3}; how many of the should clauses matched; all 8 combinations of (must present?, should present (2 clauses)?, filter present?)
//@ bounds: 0..2 should clauses, 0..1 must clause, 0..1 filter
//@ oracle: with no explicit minimum_should_match a bool query needs one matching should clause only when it has neither must nor filter clauses; otherwise should clauses are optional; an explicit value is used as is
//@ outside: the must / must_not / filter loops of the same arm and recursion into children (query trees live in heap Vecs whose enum payloads CBMC cannot keep constant: every child is explored as every variant, measured > 15 min for one child)
#[kani::proof]
#[kani::unwind(4)]
fn c07_bool_should_is_optional_next_to_must() {
  should_case(0, 0, false);
  should_case(0, 2, false);
  should_case(1, 0, false);
  should_case(1, 2, false);
  should_case(0, 0, true);
  should_case(0, 2, true);
  should_case(1, 2, true);
  should_case(1, 0, true);
  kani::cover!(true, "all clause combinations executed");
}

// Whole Bool / DisMax trees were tried three ways (children built with vec![], with
// push, and as Vecs backed by stack arrays): each time CBMC cannot keep the children's
// (niche-encoded) enum payloads constant, explores every child as every variant -
// including arbitrary filter trees - and times out at 900 s even for one child.  The
// Bool arm is therefore covered by the source slice above only.

//@ props: C07
//@ tier: quick
//@ funcs: api::reader::QueryEvaluator::matches_node (QueryString matcher)
//@ symbolic: whether the document matches each of 3 terms; minimum_should_match in {absent, 0..3}
//@ bounds: query_string with 2 positive terms and 1 negated term; the negated-only and empty forms
//@ oracle: no negated term may match; matching positive terms >= minimum_should_match (default 1); a query of only negated terms matches every document that holds none of them; an empty query matches nothing
#[kani::proof]
#[kani::unwind(6)]
fn c07_query_string_matcher() {
  let m: [bool; 3] = kani::any();
  let msm = any_msm();
  let qs = QueryMatcher::QueryString(QueryStringMatcher {
    term_groups: u2(0, 1),
    phrase_groups: Vec::new(),
    not_term_groups: u1(2),
    minimum_should_match: msm,
  });
  let pos = m[0] as usize + m[1] as usize;
  let need = match msm {
    Some(n) => n,
    None => 1,
  };
  assert!(eval(&qs, &m) == (!m[2] && pos >= need), "C07: query_string matcher disagrees with the documented semantics");
  let neg_only = QueryMatcher::QueryString(QueryStringMatcher {
    term_groups: Vec::new(),
    phrase_groups: Vec::new(),
    not_term_groups: u1(2),
    minimum_should_match: None,
  });
  assert!(eval(&neg_only, &m) == !m[2], "C07: negated-only query_string must match the documents without the term");
  let empty = QueryMatcher::QueryString(QueryStringMatcher {
    term_groups: Vec::new(),
    phrase_groups: Vec::new(),
    not_term_groups: Vec::new(),
    minimum_should_match: None,
  });
  assert!(!eval(&empty, &m), "C07: empty query_string must match nothing");
  kani::cover!(m[0] && !m[1] && !m[2] && msm == Some(2), "minimum_should_match 2 not reached");
  std::mem::forget(qs);
  std::mem::forget(neg_only);
  std::mem::forget(empty);
}
