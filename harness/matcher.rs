//! Harnesses attached as a child module of searchlite-core/src/api/reader.rs:
//! boolean evaluation of compiled query trees (QueryEvaluator::matches_node).
//@@ crate: searchlite-core
//@@ attach: searchlite-core/src/api/reader.rs
//@@ requires: fastfields_support.rs
//@@ rewrite: searchlite-core/src/query/filters.rs :: let mut nested: std::collections::HashMap<&str, Vec<&'a Filter>> = ==> let mut nested: crate::verif_models::HashMap<&str, Vec<&'a Filter>> =
//@@ rewrite: searchlite-core/src/query/filters.rs :: std::collections::HashMap::new(); ==> crate::verif_models::HashMap::new();
use super::*;
use crate::index::fastfields::verif_fastfields_support::empty_reader;
use crate::query::planner::QueryStringMatcher;

/// Term i matches document 0 iff m[i]: its doc list is [0] (match) or [1] (no match).
fn term_docs<const N: usize>(m: &[bool; N]) -> Vec<Vec<DocId>> {
  let mut v = Vec::with_capacity(N);
  let mut i = 0;
  while i < N {
    let mut d = Vec::with_capacity(1);
    d.push(if m[i] { 0 } else { 1 });
    v.push(d);
    i += 1;
  }
  v
}

fn groups<const N: usize>() -> Vec<Vec<usize>> {
  let mut v = Vec::with_capacity(N);
  let mut i = 0;
  while i < N {
    let mut g = Vec::with_capacity(1);
    g.push(i);
    v.push(g);
    i += 1;
  }
  v
}

/// Builds a Vec by `push` (typed stores keep enum discriminants constant for the
/// symbolic executor; `vec![..]` moves the elements with a memcpy, after which
/// `matches_node` is explored for every variant at every level).
fn v1(a: QueryMatcher) -> Vec<QueryMatcher> {
  let mut v = Vec::with_capacity(1);
  v.push(a);
  v
}

fn v2(a: QueryMatcher, b: QueryMatcher) -> Vec<QueryMatcher> {
  let mut v = Vec::with_capacity(2);
  v.push(a);
  v.push(b);
  v
}

fn v3(a: QueryMatcher, b: QueryMatcher, c: QueryMatcher) -> Vec<QueryMatcher> {
  let mut v = Vec::with_capacity(3);
  v.push(a);
  v.push(b);
  v.push(c);
  v
}

fn u2(a: usize, b: usize) -> Vec<usize> {
  let mut v = Vec::with_capacity(2);
  v.push(a);
  v.push(b);
  v
}

fn u1(a: usize) -> Vec<usize> {
  let mut v = Vec::with_capacity(1);
  v.push(a);
  v
}

fn any_msm() -> Option<usize> {
  if kani::any() {
    None
  } else {
    let n: usize = kani::any();
    kani::assume(n <= 3);
    Some(n)
  }
}

fn bool_node(must: Vec<QueryMatcher>, should: Vec<QueryMatcher>, must_not: Vec<QueryMatcher>, msm: Option<usize>) -> QueryMatcher {
  QueryMatcher::Bool {
    must,
    should,
    must_not,
    filter: Vec::new(),
    minimum_should_match: msm,
  }
}

fn eval<const N: usize>(node: &QueryMatcher, m: &[bool; N]) -> bool {
  let docs = term_docs(m);
  let lists = groups::<N>();
  let ff = empty_reader();
  let ev = QueryEvaluator {
    matcher: node,
    term_docs: &docs,
    term_group_lists: &lists,
    phrase_postings: &[],
    fast_fields: &ff,
  };
  let r = ev.matches(0);
  std::mem::forget(docs);
  std::mem::forget(lists);
  std::mem::forget(ff);
  r
}

//@ props: C07
//@ tier: quick
//@ funcs: api::reader::QueryEvaluator::matches, matches_node, term_group_matches; query::filters::passes_filters (empty filter list)
//@ symbolic: whether the document matches each of 4 terms; minimum_should_match in {absent, 0, 1, 2, 3}
//@ bounds: bool query with 1 must, 2 should, 1 must_not clause; one document
//@ oracle: README boolean semantics on the query tree: must AND NOT must_not AND (matching should clauses >= minimum_should_match, which defaults to 0 because a must clause is present - should clauses are optional next to must)
//@ assumes: container model for the filter-grouping map in passes_filters_at (DESIGN 2.2)
#[kani::proof]
#[kani::unwind(6)]
fn c07_bool_must_should_mustnot() {
  let m: [bool; 4] = kani::any();
  let msm = any_msm();
  let node = bool_node(
    v1(QueryMatcher::Term(0)),
    v2(QueryMatcher::Term(1), QueryMatcher::Term(2)),
    v1(QueryMatcher::Term(3)),
    msm,
  );
  let got = eval(&node, &m);
  let should = m[1] as usize + m[2] as usize;
  let need = match msm {
    Some(n) => n,
    None => 0,
  };
  let want = m[0] && !m[3] && should >= need;
  assert!(got == want, "C07: bool(must, should, must_not) disagrees with the documented semantics");
  kani::cover!(got && should == 0 && msm.is_none(), "should clauses are optional next to must");
  kani::cover!(!got && m[0] && !m[3], "minimum_should_match enforced");
  std::mem::forget(node);
}

//@ props: C07
//@ tier: quick
//@ funcs: api::reader::QueryEvaluator::matches_node, term_group_matches
//@ symbolic: whether the document matches each of 3 terms; minimum_should_match in {absent, 0..3}
//@ bounds: bool query with only should clauses (3), one document
//@ oracle: with no must/filter clause at least one should clause must match unless minimum_should_match says otherwise
#[kani::proof]
#[kani::unwind(6)]
fn c07_bool_should_only() {
  let m: [bool; 3] = kani::any();
  let msm = any_msm();
  let node = bool_node(
    Vec::new(),
    v3(QueryMatcher::Term(0), QueryMatcher::Term(1), QueryMatcher::Term(2)),
    Vec::new(),
    msm,
  );
  let got = eval(&node, &m);
  let should = m[0] as usize + m[1] as usize + m[2] as usize;
  let need = match msm {
    Some(n) => n,
    None => 1,
  };
  assert!(got == (should >= need), "C07: should-only bool query disagrees with the documented semantics");
  kani::cover!(!got && msm.is_none(), "no should clause matched");
  kani::cover!(got && msm == Some(0) && should == 0, "explicit minimum_should_match 0");
  std::mem::forget(node);
}

//@ props: C07
//@ tier: quick
//@ funcs: api::reader::QueryEvaluator::matches_node (DisMax, nested Bool, MatchAll)
//@ symbolic: whether the document matches each of 4 terms
//@ bounds: dis_max over [bool(must t0, should t1), t2]; bool(must [bool(should t0 t1)], must_not [bool(must t2 t3)]); depth 2
//@ oracle: dis_max matches iff any child matches; nested bool evaluated recursively; match_all always matches; an empty dis_max matches nothing
#[kani::proof]
#[kani::unwind(6)]
fn c07_dismax_and_nested_bool() {
  let m: [bool; 4] = kani::any();
  let dis = QueryMatcher::DisMax(v2(
    bool_node(v1(QueryMatcher::Term(0)), v1(QueryMatcher::Term(1)), Vec::new(), None),
    QueryMatcher::Term(2),
  ));
  assert!(eval(&dis, &m) == (m[0] || m[2]), "C07: dis_max disagrees with 'any child matches'");
  let nested = bool_node(
    v1(bool_node(Vec::new(), v2(QueryMatcher::Term(0), QueryMatcher::Term(1)), Vec::new(), None)),
    Vec::new(),
    v1(bool_node(v2(QueryMatcher::Term(2), QueryMatcher::Term(3)), Vec::new(), Vec::new(), None)),
    None,
  );
  assert!(eval(&nested, &m) == ((m[0] || m[1]) && !(m[2] && m[3])), "C07: nested bool disagrees with the documented semantics");
  assert!(eval(&QueryMatcher::MatchAll, &m), "C07: match_all must match");
  assert!(!eval(&QueryMatcher::DisMax(Vec::new()), &m), "C07: empty dis_max must not match");
  let filter_like = bool_node(v1(QueryMatcher::MatchAll), v1(QueryMatcher::Term(0)), v1(QueryMatcher::Term(1)), None);
  assert!(eval(&filter_like, &m) == !m[1], "C07: should clause next to must changed the match set");
  kani::cover!(m[0] && !m[2], "dis_max matched through the bool child");
  std::mem::forget(dis);
  std::mem::forget(nested);
  std::mem::forget(filter_like);
}

//@ props: C07
//@ tier: quick
//@ funcs: api::reader::QueryEvaluator::matches_node (QueryString matcher)
//@ symbolic: whether the document matches each of 3 terms; minimum_should_match in {absent, 0..3}
//@ bounds: query_string with 2 positive terms and 1 negated term; the negated-only and empty forms
//@ oracle: no negated term may match; matching positive terms >= minimum_should_match (default 1); a query of only negated terms matches every document that holds none of them; an empty query matches nothing
#[kani::proof]
#[kani::unwind(6)]
fn c07_query_string_matcher() {
  let m: [bool; 3] = kani::any();
  let msm = any_msm();
  let qs = QueryMatcher::QueryString(QueryStringMatcher {
    term_groups: u2(0, 1),
    phrase_groups: Vec::new(),
    not_term_groups: u1(2),
    minimum_should_match: msm,
  });
  let pos = m[0] as usize + m[1] as usize;
  let need = match msm {
    Some(n) => n,
    None => 1,
  };
  assert!(eval(&qs, &m) == (!m[2] && pos >= need), "C07: query_string matcher disagrees with the documented semantics");
  let neg_only = QueryMatcher::QueryString(QueryStringMatcher {
    term_groups: Vec::new(),
    phrase_groups: Vec::new(),
    not_term_groups: u1(2),
    minimum_should_match: None,
  });
  assert!(eval(&neg_only, &m) == !m[2], "C07: negated-only query_string must match the documents without the term");
  let empty = QueryMatcher::QueryString(QueryStringMatcher {
    term_groups: Vec::new(),
    phrase_groups: Vec::new(),
    not_term_groups: Vec::new(),
    minimum_should_match: None,
  });
  assert!(!eval(&empty, &m), "C07: empty query_string must match nothing");
  kani::cover!(m[0] && !m[1] && !m[2] && msm == Some(2), "minimum_should_match 2 not reached");
  std::mem::forget(qs);
  std::mem::forget(neg_only);
  std::mem::forget(empty);
}
