//! Harnesses attached as a child module of searchlite-core/src/query/wand.rs:
//! component contracts of the pruning executor (C09) and the ranked-doc order (C10).
//! The executor loops themselves (wand_loop / brute_force, BinaryHeap of term
//! states and of ranked docs) do not terminate under CBMC (DESIGN 8.2).
//@@ crate: searchlite-core
//@@ attach: searchlite-core/src/query/wand.rs
//@@ requires: postings_support.rs
use super::*;
use crate::index::postings::verif_postings_support::{reader_from, reader_with_stored_blocks};
use crate::index::postings::PostingEntry;
use smallvec::SmallVec;

/// Monotone surrogate for BM25 (CBMC's `ln` is nondeterministic): increasing in
/// tf, decreasing in the document length, independent of the corpus statistics.
fn bm25_surrogate(tf: f32, _df: f32, doc_len: f32, _avgdl: f32, _docs: f32, _k1: f32, _b: f32) -> f32 {
  tf * 16.0 - doc_len
}

fn posting(doc: DocId, tf: u32) -> PostingEntry {
  PostingEntry {
    doc_id: doc,
    term_freq: tf,
    positions: SmallVec::new(),
  }
}

/// 4 postings with strictly increasing symbolic doc ids and symbolic tf in 1..=3.
fn any_postings4() -> ([DocId; 4], [u32; 4], Vec<PostingEntry>) {
  let d: [DocId; 4] = kani::any();
  kani::assume(d[0] < d[1] && d[1] < d[2] && d[2] < d[3] && d[3] < 1000);
  let tf: [u32; 4] = kani::any();
  kani::assume(tf[0] >= 1 && tf[0] <= 3 && tf[1] >= 1 && tf[1] <= 3 && tf[2] >= 1 && tf[2] <= 3 && tf[3] >= 1 && tf[3] <= 3);
  let mut v = Vec::with_capacity(4);
  v.push(posting(d[0], tf[0]));
  v.push(posting(d[1], tf[1]));
  v.push(posting(d[2], tf[2]));
  v.push(posting(d[3], tf[3]));
  (d, tf, v)
}

fn max4(t: &[u32; 4]) -> u32 {
  let mut m = t[0];
  let mut i = 1;
  while i < 4 {
    if t[i] > m {
      m = t[i];
    }
    i += 1;
  }
  m
}

fn state(entries: Vec<PostingEntry>, max_tf: f32, block: usize, lens: Option<Arc<Vec<f32>>>) -> TermState {
  TermState::new(
    ScoredTerm {
      postings: reader_from(entries, max_tf, 128),
      weight: 1.0,
      avgdl: 8.0,
      docs: 10.0,
      k1: 0.9,
      b: 0.4,
      leaf: 0,
      doc_lengths: lens,
    },
    block,
  )
}

/// A term whose posting list carries stored block metadata for blocks of 2 postings
/// (what a segment file holds), executed with a possibly different runtime block size.
fn state_stored2(entries: Vec<PostingEntry>, max_tf: f32, block: usize) -> TermState {
  TermState::new(
    ScoredTerm {
      postings: reader_with_stored_blocks(entries, max_tf, 2),
      weight: 1.0,
      avgdl: 8.0,
      docs: 10.0,
      k1: 0.9,
      b: 0.4,
      leaf: 0,
      doc_lengths: None,
    },
    block,
  )
}

fn first_at_or_after(d: &[DocId; 4], from: usize, target: DocId) -> usize {
  let mut i = from;
  while i < 4 {
    if d[i] >= target {
      return i;
    }
    i += 1;
  }
  4
}

fn advance_case(start: usize) {
  let (d, tf, entries) = any_postings4();
  let target: DocId = kani::any();
  let mut st = state(entries, max4(&tf) as f32, 2, None);
  st.idx = start;
  let moved = st.advance_to(target);
  let want = if d[start] >= target { start } else { first_at_or_after(&d, start, target) };
  assert!(st.idx == want, "C09: advance_to does not land on the first posting at or after the target");
  assert!(moved == want - start, "C09: advance_to reports a wrong number of skipped postings");
  kani::cover!(want > start && want < 4, "moved forward to a later posting");
  kani::cover!(want == 4, "ran off the end of the list");
  std::mem::forget(st);
}

//@ props: C09
//@ tier: quick
//@ funcs: query::wand::TermState::new, TermState::advance_to, TermState::doc_id, TermState::is_done, build_block_meta
//@ symbolic: 4 postings with strictly increasing doc ids (< 1000) and term frequencies 1..3; the target doc id (any u32); start position 0 or 1
//@ bounds: 4 postings, start positions 0 and 1
//@ oracle: advance_to(t) never moves backwards, lands exactly on the first posting whose doc id is >= t (or the end), and returns the number of postings skipped - a posting >= t is never skipped, which is what makes pruning lossless
//@ assumes: bm25 replaced by a monotone surrogate (tf*16 - doc_len)
#[kani::proof]
#[kani::unwind(7)]
#[kani::stub(crate::query::bm25::bm25, bm25_surrogate)]
fn c09_advance_to_lands_on_first_geq() {
  advance_case(0);
  advance_case(1);
}

//@ like: c09_advance_to_lands_on_first_geq
//@ tier: thorough
//@ symbolic: as c09_advance_to_lands_on_first_geq from the start positions 2 and 3 (the last posting)
//@ bounds: 4 postings, start positions 2 and 3
#[kani::proof]
#[kani::unwind(7)]
#[kani::stub(crate::query::bm25::bm25, bm25_surrogate)]
fn c09_advance_to_from_late_positions() {
  advance_case(2);
  advance_case(3);
}

/// Same contract on a posting list that carries stored block metadata (what a segment
/// file holds: last doc id and max tf of every `stored_block` postings) - any use the
/// cursor makes of that skip data must not change where advance_to lands.
fn advance_case_stored(start: usize, stored_block: usize) {
  let (d, tf, entries) = any_postings4();
  let target: DocId = kani::any();
  let mut st = TermState::new(
    ScoredTerm {
      postings: reader_with_stored_blocks(entries, max4(&tf) as f32, stored_block),
      weight: 1.0,
      avgdl: 8.0,
      docs: 10.0,
      k1: 0.9,
      b: 0.4,
      leaf: 0,
      doc_lengths: None,
    },
    128,
  );
  st.idx = start;
  let moved = st.advance_to(target);
  let want = if d[start] >= target { start } else { first_at_or_after(&d, start, target) };
  assert!(st.idx == want, "C09: advance_to does not land on the first posting at or after the target (posting list with stored block metadata)");
  assert!(moved == want - start, "C09: advance_to reports a wrong number of skipped postings (posting list with stored block metadata)");
  kani::cover!(want == 2 && start == 0, "landed on the first posting of the second stored block");
  std::mem::forget(st);
}

//@ props: C09
//@ tier: quick
//@ funcs: query::wand::TermState::advance_to, TermState::new, build_block_meta, index::postings::PostingsReader (stored block metadata)
//@ symbolic: 4 postings (increasing doc ids, tf 1..3) stored with block metadata for blocks of 1 and of 2 postings; the target doc id (any u32); start positions 0 and 1; runtime block size 128 (the default, different from the stored one)
//@ bounds: 4 postings, stored block sizes 1 and 2, start positions 0 and 1
//@ oracle: as c09_advance_to_lands_on_first_geq - a posting >= target is never skipped, in particular not the first posting of a later stored block
//@ assumes: bm25 replaced by a monotone surrogate
#[kani::proof]
#[kani::unwind(7)]
#[kani::stub(crate::query::bm25::bm25, bm25_surrogate)]
fn c09_advance_to_with_stored_blocks() {
  advance_case_stored(0, 2);
  advance_case_stored(1, 2);
  advance_case_stored(0, 1);
}

fn skip_case(block: usize) {
  let (d, tf, entries) = any_postings4();
  let target: DocId = kani::any();
  let mut st = state(entries, max4(&tf) as f32, block, None);
  let moved = st.skip_to_block(target);
  assert!(st.idx <= 4 && moved == st.idx, "C09: skip_to_block reports a wrong number of skipped postings");
  // no posting at or after the target may be skipped
  let mut i = 0;
  while i < 4 {
    if i < st.idx {
      assert!(d[i] < target, "C09: skip_to_block skipped a posting at or after the target");
    }
    i += 1;
  }
  // and it skips whole blocks only
  assert!(st.idx == 4 || st.idx % block == 0, "C09: skip_to_block stopped inside a block");
  kani::cover!(st.idx == 2 && block == 2, "one whole block skipped");
  kani::cover!(st.idx == 4, "every block skipped");
  std::mem::forget(st);
}

//@ props: C09
//@ tier: quick
//@ funcs: query::wand::TermState::skip_to_block, TermState::new, build_block_meta
//@ symbolic: 4 postings (increasing doc ids, tf 1..3), target doc id (any u32); block sizes 1, 2, 3 and 4 (= the list length)
//@ bounds: 4 postings, block sizes 1..4
//@ oracle: skip_to_block(t) never passes a posting whose doc id is >= t, moves in whole blocks, and reports the distance moved
//@ assumes: bm25 replaced by a monotone surrogate
#[kani::proof]
#[kani::unwind(7)]
#[kani::stub(crate::query::bm25::bm25, bm25_surrogate)]
fn c09_skip_to_block_never_passes_target() {
  skip_case(1);
  skip_case(2);
  skip_case(3);
  skip_case(4);
}

fn bounds_case(block: usize) {
  let (d, tf, entries) = any_postings4();
  let _ = d;
  // document lengths for docs 0..3 are irrelevant (doc ids are arbitrary): use the avgdl path
  let mut st = state(entries, max4(&tf) as f32, block, None);
  let mut i = 0;
  while i < 4 {
    st.idx = i;
    let s = st.score_current();
    let bu = st.block_upper_bound();
    let ub = st.upper_bound();
    assert!(s <= bu, "C09: a posting scores above its block upper bound (block-max pruning would drop it)");
    assert!(bu <= ub, "C09: a block upper bound exceeds the term upper bound");
    i += 1;
  }
  kani::cover!(tf[0] == 3 && tf[3] == 1, "maximum tf in the first block only");
  std::mem::forget(st);
}

//@ props: C09
//@ tier: quick
//@ funcs: query::wand::TermState::new, build_block_meta, TermState::score_current, TermState::block_upper_bound, TermState::upper_bound, score_tf, upper_bound_tf
//@ symbolic: 4 postings (increasing doc ids, tf 1..3); block sizes 1..5 (smaller than, equal to and larger than the list)
//@ bounds: 4 postings, every position, block sizes 1..5
//@ oracle: at every position score_current <= block_upper_bound <= upper_bound (the two inequalities WAND / block-max WAND pruning relies on)
//@ assumes: bm25 replaced by a monotone surrogate (tf*16 - doc_len); weight 1; max_tf as recorded by the postings writer (maximum term frequency)
//@ outside: per-document lengths (doc_lengths = None), real BM25 numerics
#[kani::proof]
#[kani::unwind(7)]
#[kani::stub(crate::query::bm25::bm25, bm25_surrogate)]
fn c09_score_bounds_ordered() {
  bounds_case(1);
  bounds_case(2);
  bounds_case(3);
  bounds_case(4);
  bounds_case(5);
}

fn stored_case(block: usize) {
  let (d, tf, entries) = any_postings4();
  let target: DocId = kani::any();
  let mut st = state_stored2(entries, max4(&tf) as f32, block);
  let mut i = 0;
  while i < 4 {
    st.idx = i;
    let s = st.score_current();
    let bu = st.block_upper_bound();
    assert!(s <= bu, "C09: a posting scores above its block upper bound (stored block metadata used with another block size)");
    assert!(bu <= st.upper_bound(), "C09: a block upper bound exceeds the term upper bound");
    i += 1;
  }
  st.idx = 0;
  let moved = st.skip_to_block(target);
  assert!(st.idx <= 4 && moved == st.idx, "C09: skip_to_block reports a wrong number of skipped postings");
  let mut i = 0;
  while i < 4 {
    if i < st.idx {
      assert!(d[i] < target, "C09: skip_to_block skipped a posting at or after the target (stored block metadata)");
    }
    i += 1;
  }
  std::mem::forget(st);
}

//@ props: C09
//@ tier: quick
//@ funcs: query::wand::TermState::new, build_block_meta (reuse of the metadata stored with the posting list), TermState::block_upper_bound, TermState::skip_to_block
//@ symbolic: 4 postings (increasing doc ids, tf 1..3) whose stored block metadata is for blocks of 2; runtime block sizes 1, 2, 4 and 5; the skip target
//@ bounds: 4 postings, stored block size 2, runtime block sizes 1, 2, 4, 5
//@ oracle: whatever runtime block size is requested, every posting scores at most its block upper bound and skip_to_block never passes a posting >= target (stored metadata may only be reused when it was built for the same block size)
//@ assumes: bm25 replaced by a monotone surrogate
#[kani::proof]
#[kani::unwind(7)]
#[kani::stub(crate::query::bm25::bm25, bm25_surrogate)]
fn c09_stored_block_metadata_reuse() {
  stored_case(1);
  stored_case(2);
  stored_case(4);
  stored_case(5);
  kani::cover!(true, "all runtime block sizes executed");
}

//@ props: C09, C10
//@ tier: quick
//@ funcs: query::wand::RankedDoc::cmp, RankedDoc::eq
//@ symbolic: three ranked docs with any score bits and doc ids
//@ bounds: 3 values
//@ oracle: a ranks above b iff its score is higher (IEEE total order) or the scores are equal and its doc id is smaller; antisymmetric, transitive, Equal iff identical
#[kani::proof]
fn c10_ranked_doc_order() {
  let mk = || RankedDoc {
    doc_id: kani::any(),
    score: f32::from_bits(kani::any()),
  };
  let (a, b, c) = (mk(), mk(), mk());
  fn rank(x: f32) -> i32 {
    let v = x.to_bits() as i32;
    if v < 0 {
      v ^ 0x7fff_ffff
    } else {
      v
    }
  }
  let want = if rank(a.score) != rank(b.score) {
    if rank(a.score) > rank(b.score) {
      Ordering::Greater
    } else {
      Ordering::Less
    }
  } else if a.doc_id < b.doc_id {
    Ordering::Greater
  } else if a.doc_id > b.doc_id {
    Ordering::Less
  } else {
    Ordering::Equal
  };
  assert!(a.cmp(&b) == want, "C10: RankedDoc order is not (score desc, doc id asc)");
  assert!(b.cmp(&a) == want.reverse(), "C10: RankedDoc order is not antisymmetric");
  assert!((a.cmp(&b) == Ordering::Equal) == (a == b), "C10: RankedDoc Equal differs from equality");
  if a.cmp(&b) != Ordering::Less && b.cmp(&c) != Ordering::Less {
    assert!(a.cmp(&c) != Ordering::Less, "C10: RankedDoc order is not transitive");
  }
  kani::cover!(want == Ordering::Greater && a.score.to_bits() == b.score.to_bits(), "tie broken by smaller doc id");
}
