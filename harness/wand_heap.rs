//! Harnesses attached as a child module of searchlite-core/src/query/wand.rs: the
//! bounded top-k heap of the executors (`push_top_k` + `finalize_heap`, used by
//! brute_force and wand_loop alike).  Their bodies are cut from the current source
//! (slices) and run over the priority-queue model of /verif/models instead of
//! std's BinaryHeap (sift positions that depend on symbolic keys do not get through
//! CBMC, DESIGN 8.2 / 8.8).
//@@ crate: searchlite-core
//@@ attach: searchlite-core/src/query/wand.rs
//@@ slice: wand_push_top_k
//@@ slice: wand_finalize_heap
use super::*;
use crate::verif_models::BinaryHeap as ModelHeap;

/// Position of a score in IEEE total order (what `f32::total_cmp` compares).
fn rank(x: f32) -> i32 {
  let v = x.to_bits() as i32;
  if v < 0 {
    v ^ 0x7fff_ffff
  } else {
    v
  }
}

/// Specification: a ranks strictly before b (higher score first, then smaller doc id).
fn before(a: &RankedDoc, b: &RankedDoc) -> bool {
  rank(a.score) > rank(b.score) || (rank(a.score) == rank(b.score) && a.doc_id < b.doc_id)
}

fn any_doc() -> RankedDoc {
  RankedDoc {
    doc_id: kani::any(),
    score: f32::from_bits(kani::any()),
  }
}

fn topk_case(k: usize) {
  let d = [any_doc(), any_doc(), any_doc(), any_doc()];
  // documents reach the heap at most once each
  kani::assume(d[0].doc_id != d[1].doc_id && d[0].doc_id != d[2].doc_id && d[0].doc_id != d[3].doc_id);
  kani::assume(d[1].doc_id != d[2].doc_id && d[1].doc_id != d[3].doc_id && d[2].doc_id != d[3].doc_id);
  let mut heap: ModelHeap<Reverse<RankedDoc>> = ModelHeap::new();
  slice_push_top_k(&mut heap, d[0], k);
  slice_push_top_k(&mut heap, d[1], k);
  slice_push_top_k(&mut heap, d[2], k);
  slice_push_top_k(&mut heap, d[3], k);
  let out = slice_finalize_heap(heap);
  assert!(out.len() == k, "C09: the top-k heap does not return exactly k of 4 candidates");
  // position i of the output must be the candidate that exactly i candidates precede
  let mut i = 0;
  while i < 4 {
    let mut ahead = 0usize;
    let mut j = 0;
    while j < 4 {
      if j != i && before(&d[j], &d[i]) {
        ahead += 1;
      }
      j += 1;
    }
    if ahead < k {
      assert!(
        out[ahead].doc_id == d[i].doc_id && out[ahead].score.to_bits() == d[i].score.to_bits(),
        "C09: the top-k heap lost one of the k best candidates or returned them out of (score desc, doc asc) order"
      );
    }
    i += 1;
  }
  kani::cover!(before(&d[3], &d[0]) && before(&d[3], &d[1]) && before(&d[3], &d[2]), "the last candidate pushed is the best one");
  kani::cover!(rank(d[0].score) == rank(d[1].score) && rank(d[1].score) == rank(d[2].score), "ties decided by doc id");
  std::mem::forget(out);
}

//@ props: C09, C10
//@ tier: quick
//@ funcs: query::wand::push_top_k (slice of the whole body), query::wand::finalize_heap (slice of the whole body), RankedDoc::cmp
//@ symbolic: four candidates with any score bit pattern (incl. NaN, -0, infinities) and distinct doc ids, pushed in a fixed order; k = 1, 2 and 3
//@ bounds: 4 candidates, k in 1..3
//@ oracle: the result has exactly k entries and entry i is the candidate preceded by exactly i others in (score descending by IEEE total order, doc id ascending) order - i.e. the bounded heap keeps exactly the k best and finalize_heap orders them
//@ assumes: std BinaryHeap replaced by the fixed-capacity linear priority-queue model, std slice sort by the short stable sort model (/verif/models); slice extraction by the functions' signature lines
//@ outside: how brute_force / wand_loop decide which candidates reach the heap
#[kani::proof]
#[kani::unwind(6)]
fn c09_top_k_heap_keeps_k_best() {
  topk_case(1);
  topk_case(2);
  topk_case(3);
}
