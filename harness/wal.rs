//! Harnesses attached as a child module of searchlite-core/src/index/wal.rs.
//! The log is driven through the real `Storage` / `StorageFile` traits with a
//! one-file in-memory storage (append-mode semantics: writes go to the end).
//@@ crate: searchlite-core
//@@ attach: searchlite-core/src/index/wal.rs
// Declared abstraction (DESIGN 2.2): dropping a queued `Document` is a no-op in the
// verification build.  The recursive drop glue of serde_json::Value (B-tree of
// values) otherwise enters every place a Vec<WalEntry> is dropped and symbolic
// execution does not terminate.  Three textual rewrites of the scratch copy:
//@@ rewrite: searchlite-core/src/index/wal.rs :: AddDoc(Document), ==> AddDoc(std::mem::ManuallyDrop<Document>),
//@@ rewrite: searchlite-core/src/index/wal.rs :: entries.push(WalEntry::AddDoc(doc)); ==> entries.push(WalEntry::AddDoc(std::mem::ManuallyDrop::new(doc)));
//@@ rewrite: searchlite-core/src/api/writer.rs :: WalEntry::AddDoc(doc) => { ==> WalEntry::AddDoc(doc) => { let doc = std::mem::ManuallyDrop::into_inner(doc);
use super::*;
use crate::verif_support::*;

/// `serde_json::from_slice::<Document>` stub: within the harness bounds every
/// add-document payload is at most 1 byte, which is never a JSON object, so the
/// real decoder always returns Err; returning Err directly keeps serde_json's
/// parser (and the drop glue of `serde_json::Value`) out of the formula.
fn stub_from_slice<'a, T: serde::Deserialize<'a>>(_v: &'a [u8]) -> serde_json::Result<T> {
  Err(serde_json::Error::io(std::io::Error::from(std::io::ErrorKind::InvalidData)))
}

/// `core::str::from_utf8` stub: always Ok.  Every id the harnesses write is one
/// ASCII byte, and replay only looks at a payload after its CRC matched, so the
/// real validator would succeed on every feasible path; making that visible to
/// the symbolic executor keeps `entries.len()` concrete (a conditional push
/// makes every later vector access symbolic and the formula explodes).
fn stub_from_utf8(v: &[u8]) -> std::result::Result<&str, std::str::Utf8Error> {
  Ok(unsafe { std::str::from_utf8_unchecked(v) })
}

fn ok<T>(r: Result<T>) -> Option<T> {
  match r {
    Ok(v) => Some(v),
    Err(e) => {
      std::mem::forget(e);
      None
    }
  }
}

fn id1(b: u8) -> String {
  unsafe { String::from_utf8_unchecked(vec![b]) }
}

fn any_ascii() -> u8 {
  let b: u8 = kani::any();
  kani::assume(b < 0x80);
  b
}

fn is_delete(e: &WalEntry, b: u8) -> bool {
  match e {
    WalEntry::DeleteDocId(id) => id.len() == 1 && id.as_bytes()[0] == b,
    _ => false,
  }
}

fn is_commit(e: &WalEntry) -> bool {
  matches!(e, WalEntry::Commit)
}

const D: usize = 7; // varint(1) + type + 1 payload byte + crc32
const C: usize = 6; // varint(0) + type + crc32

/// Writes `D(a) C D(b)` through the real Wal API and returns the storage.
fn build_dcd(a: u8, b: u8) -> Arc<MemStorage> {
  let st = Arc::new(MemStorage::new(Vec::new()));
  let p = PathBuf::new();
  let mut wal = ok(Wal::open(st.clone(), &p)).unwrap();
  assert!(ok(wal.append_delete_doc_id(&id1(a))).is_some());
  assert!(ok(wal.append_commit()).is_some());
  assert!(ok(wal.append_delete_doc_id(&id1(b))).is_some());
  assert!(ok(wal.sync()).is_some());
  std::mem::forget(wal);
  st
}

/// Specification of "pending operations": the indices of the operations after
/// the last commit marker (README: a commit applies everything queued before it).
/// `Wal::last_pending_ops` itself is compared with this on concrete logs in
/// c02_last_pending_ops_matches_spec (on symbolic logs the moves between the two entry vectors exhaust CBMC's memory).
fn pending_from(entries: &Vec<WalEntry>) -> (usize, usize) {
  // returns (first pending index, count)
  let mut first = 0usize;
  let mut i = 0usize;
  while i < entries.len() {
    if is_commit(&entries[i]) {
      first = i + 1;
    }
    i += 1;
  }
  (first, entries.len() - first)
}

fn replay_of(st: &MemStorage) -> Vec<WalEntry> {
  let p = PathBuf::new();
  ok(Wal::replay(st, &p)).unwrap()
}

//@ props: C02, C17
//@ tier: quick
//@ funcs: index::wal::Wal::open, Wal::append_delete_doc_id, Wal::append_commit, Wal::append_entry, Wal::sync, Wal::len, Wal::replay, util::varint::write_u64, util::varint::read_u64, crc32fast (portable path)
//@ symbolic: the two 1-byte ASCII document ids of a log `delete(a), commit, delete(b)`
//@ bounds: 3 records, 1-byte ids
//@ oracle: replay returns exactly [delete a, commit, delete b] in order; the operations after the last commit marker are exactly [delete b] (nothing before the marker is pending again); len() equals the bytes written
//@ assumes: crc32fast CPU-feature dispatch stubbed to the portable implementation; serde_json::from_slice stubbed to Err (exact for payloads <= 1 byte); core::str::from_utf8 stubbed to Ok (ids are ASCII; a non-UTF-8 payload behind a matching CRC is outside the claim)
#[kani::proof]
#[kani::unwind(8)]
#[kani::stub(std::backtrace::Backtrace::capture, stub_backtrace)]
#[kani::stub(alloc::fmt::format, stub_format)]
#[kani::stub(crc32fast::Hasher::internal_new_specialized, stub_crc_specialized)]
#[kani::stub(serde_json::from_slice, stub_from_slice)]
#[kani::stub(core::str::from_utf8, stub_from_utf8)]
fn c02_wal_roundtrip_dcd() {
  let (a, b) = (any_ascii(), any_ascii());
  let st = build_dcd(a, b);
  // a different record layout makes the offsets below meaningless: then the harness is vacuous
  // (reported inconclusive through its cover witnesses), never a violation
  kani::assume(st.bytes().len() == D + C + D);
  let entries = replay_of(st.as_ref());
  assert!(entries.len() == 3, "C02: replay lost or invented a record");
  assert!(is_delete(&entries[0], a), "C02: first record is not delete(a)");
  assert!(is_commit(&entries[1]), "C02: second record is not the commit marker");
  assert!(is_delete(&entries[2], b), "C02: third record is not delete(b)");
  let (first, n) = pending_from(&entries);
  assert!(first == 2 && n == 1, "C02: pending ops are not exactly the ops after the last commit marker");
  kani::cover!(a == b, "same id before and after the marker");
  std::mem::forget(entries);
}

/// Expected recovery from the first `t` bytes of `D(a) C D(b)`.
fn expected_records(t: usize) -> usize {
  if t >= D + C + D {
    3
  } else if t >= D + C {
    2
  } else if t >= D {
    1
  } else {
    0
  }
}

fn torn_case(full: &[u8], t: usize, a: u8, b: u8) {
  let img = MemStorage::new(full[..t].to_vec());
  let entries = replay_of(&img);
  let want = expected_records(t);
  assert!(entries.len() == want, "C02/C17: torn log does not recover exactly the intact prefix");
  if want >= 1 {
    assert!(is_delete(&entries[0], a), "C02: wrong first record after tear");
  }
  if want >= 2 {
    assert!(is_commit(&entries[1]), "C02: wrong second record after tear");
  }
  if want >= 3 {
    assert!(is_delete(&entries[2], b), "C02: wrong third record after tear");
  }
  let (first, n) = pending_from(&entries);
  let want_pending = if want == 1 || want == 3 { 1 } else { 0 };
  assert!(n == want_pending, "C02: wrong pending set after tear");
  if want == 3 {
    assert!(first == 2, "C02: committed op is pending again after tear");
  }
  std::mem::forget(entries);
  std::mem::forget(img);
}

macro_rules! each_offset {
  ($f:ident, $full:expr, $a:expr, $b:expr; $($t:expr),*) => { $( $f($full, $t, $a, $b); )* };
}

//@ props: C02, C17
//@ tier: quick
//@ funcs: index::wal::Wal::replay, util::varint::read_u64, crc32fast (portable path)
//@ symbolic: ids a, b of the log `delete(a), commit, delete(b)`; the crash point = EVERY byte offset 0..20 at which the unsynced tail is dropped (all 21 offsets inside one formula)
//@ bounds: 3 records / 20 bytes, every truncation length
//@ oracle: replay of the truncated image returns exactly the records that lie completely before the tear, in order, and nothing else; the pending set is the suffix after the last surviving commit marker; no panic
//@ assumes: as c02_wal_roundtrip_dcd
#[kani::proof]
#[kani::unwind(8)]
#[kani::stub(std::backtrace::Backtrace::capture, stub_backtrace)]
#[kani::stub(alloc::fmt::format, stub_format)]
#[kani::stub(crc32fast::Hasher::internal_new_specialized, stub_crc_specialized)]
#[kani::stub(serde_json::from_slice, stub_from_slice)]
#[kani::stub(core::str::from_utf8, stub_from_utf8)]
fn c02_wal_torn_tail_every_offset() {
  let (a, b) = (any_ascii(), any_ascii());
  let st = build_dcd(a, b);
  let full = st.bytes().clone();
  kani::assume(full.len() == D + C + D);
  each_offset!(torn_case, &full, a, b; 0, 1, 2, 3, 4, 5, 6, 7, 8, 9, 10, 11, 12, 13, 14, 15, 16, 17, 18, 19, 20);
  kani::cover!(a != b, "distinct ids");
}

/// Writes `D(a) D(b) C` through the real Wal API.
fn build_ddc(a: u8, b: u8) -> Arc<MemStorage> {
  let st = Arc::new(MemStorage::new(Vec::new()));
  let p = PathBuf::new();
  let mut wal = ok(Wal::open(st.clone(), &p)).unwrap();
  assert!(ok(wal.append_delete_doc_id(&id1(a))).is_some());
  assert!(ok(wal.append_delete_doc_id(&id1(b))).is_some());
  assert!(ok(wal.append_commit()).is_some());
  assert!(ok(wal.sync()).is_some());
  std::mem::forget(wal);
  st
}

fn torn_case_ddc(full: &[u8], t: usize, a: u8, b: u8) {
  let img = MemStorage::new(full[..t].to_vec());
  let entries = replay_of(&img);
  let want = if t >= 2 * D + C {
    3
  } else if t >= 2 * D {
    2
  } else if t >= D {
    1
  } else {
    0
  };
  assert!(entries.len() == want, "C02/C17: torn log does not recover exactly the intact prefix (D D C)");
  if want >= 1 {
    assert!(is_delete(&entries[0], a), "C02: wrong first record after tear (D D C)");
  }
  if want >= 2 {
    assert!(is_delete(&entries[1], b), "C02: wrong second record after tear (D D C)");
  }
  if want >= 3 {
    assert!(is_commit(&entries[2]), "C02: wrong third record after tear (D D C)");
  }
  let (first, n) = pending_from(&entries);
  // both deletes stay pending until the commit marker itself is intact; then nothing is pending
  let want_pending = if want == 3 { 0 } else { want };
  assert!(n == want_pending && (want == 3 || first == 0), "C02: a commit attempt whose marker was torn must leave its operations pending, an intact marker none");
  std::mem::forget(entries);
  std::mem::forget(img);
}

//@ props: C02, C17
//@ tier: thorough
//@ timeout: 2700
//@ funcs: index::wal::Wal::replay, util::varint::read_u64, crc32fast (portable path)
//@ symbolic: ids a, b of the log `delete(a), delete(b), commit`; the crash point = EVERY byte offset 0..20 at which the unsynced tail is dropped
//@ bounds: 3 records / 20 bytes, every truncation length
//@ oracle: exactly the records wholly before the tear are recovered; while the commit marker is torn both operations are still pending (the commit did not happen), once it is intact nothing is pending (no re-application)
//@ assumes: as c02_wal_roundtrip_dcd
#[kani::proof]
#[kani::unwind(8)]
#[kani::stub(std::backtrace::Backtrace::capture, stub_backtrace)]
#[kani::stub(alloc::fmt::format, stub_format)]
#[kani::stub(crc32fast::Hasher::internal_new_specialized, stub_crc_specialized)]
#[kani::stub(serde_json::from_slice, stub_from_slice)]
#[kani::stub(core::str::from_utf8, stub_from_utf8)]
fn c02_wal_torn_tail_ddc_every_offset() {
  let (a, b) = (any_ascii(), any_ascii());
  let st = build_ddc(a, b);
  let full = st.bytes().clone();
  kani::assume(full.len() == 2 * D + C);
  each_offset!(torn_case_ddc, &full, a, b; 0, 1, 2, 3, 4, 5, 6, 7, 8, 9, 10, 11, 12, 13, 14, 15, 16, 17, 18, 19, 20);
  kani::cover!(a == b, "the same id deleted twice");
}

// `Wal::last_pending_ops` was tried once more on hand-built logs whose record boundaries
// and types are constants (delete, commit, delete, delete): 251 checks undetermined after
// 164 s (12 GB).  It stays outside the claim.

fn append_after_tear_case(full: &[u8], t: usize, c: u8) {
  // image after the first crash: delete("a") intact, then the first t bytes of a torn record
  let img = Arc::new(MemStorage::new(full[..D + t].to_vec()));
  let p = PathBuf::new();
  let before = replay_of(img.as_ref());
  assert!(before.len() == 1 && is_delete(&before[0], b'a'), "C02: intact op not recovered after first crash");
  std::mem::forget(before);
  // restart: the new writer opens the log (append mode), queues delete(c) and syncs it
  let mut wal = ok(Wal::open(img.clone(), &p)).unwrap();
  assert!(ok(wal.append_delete_doc_id(&id1(c))).is_some());
  assert!(ok(wal.sync()).is_some());
  std::mem::forget(wal);
  // second crash + restart
  let after = replay_of(img.as_ref());
  assert!(
    after.len() == 2 && is_delete(&after[0], b'a') && is_delete(&after[1], c),
    "C02: operation appended after a torn tail and synced is not recovered"
  );
  std::mem::forget(after);
}

fn append_after_torn_first_record(full: &[u8], t: usize, c: u8) {
  // the log was empty (fresh index, or just after a commit/rollback) and the crash tore its FIRST record
  let img = Arc::new(MemStorage::new(full[..t].to_vec()));
  let p = PathBuf::new();
  let before = replay_of(img.as_ref());
  assert!(before.is_empty(), "C02: a torn first record must not be recovered");
  std::mem::forget(before);
  let mut wal = ok(Wal::open(img.clone(), &p)).unwrap();
  assert!(ok(wal.append_delete_doc_id(&id1(c))).is_some());
  assert!(ok(wal.sync()).is_some());
  std::mem::forget(wal);
  let after = replay_of(img.as_ref());
  assert!(
    after.len() == 1 && is_delete(&after[0], c),
    "C02: operation appended after a torn first record and synced is not recovered"
  );
  std::mem::forget(after);
}

macro_rules! each_first_tear {
  ($full:expr, $c:expr; $($t:expr),*) => { $( append_after_torn_first_record($full, $t, $c); )* };
}

macro_rules! each_tear {
  ($full:expr, $c:expr; $($t:expr),*) => { $( append_after_tear_case($full, $t, $c); )* };
}

//@ props: C02
//@ tier: quick
//@ funcs: index::wal::Wal::open (append mode, incl. whatever it does to the existing tail), Wal::append_delete_doc_id, Wal::sync, Wal::replay
//@ symbolic: the id c of the operation queued after the restart (any ASCII byte); the first crash leaves `delete("a")` intact followed by the first t bytes (EVERY t in 1..5) of a torn commit record; a restarted writer opens the log, appends `delete(c)` and syncs; second crash
//@ bounds: 2 crashes, 3 records, every tear offset inside the second record; the surviving bytes of the first crash are concrete (a symbolic tail makes the log length symbolic for the symbolic executor)
//@ oracle: after the second restart the recovered operations are [delete a, delete c] - the operation that was followed by a successful log sync is recovered, the torn one is not, order preserved
//@ assumes: as c02_wal_roundtrip_dcd
#[kani::proof]
#[kani::unwind(8)]
#[kani::stub(std::backtrace::Backtrace::capture, stub_backtrace)]
#[kani::stub(alloc::fmt::format, stub_format)]
#[kani::stub(crc32fast::Hasher::internal_new_specialized, stub_crc_specialized)]
#[kani::stub(serde_json::from_slice, stub_from_slice)]
#[kani::stub(core::str::from_utf8, stub_from_utf8)]
fn c02_wal_append_after_torn_tail() {
  let c = any_ascii();
  let st = build_dcd(b'a', b'b');
  let full = st.bytes().clone();
  kani::assume(full.len() == D + C + D);
  each_tear!(&full, c; 1, 2, 3, 4, 5);
  kani::cover!(c != b'a', "distinct ids");
}

//@ props: C02
//@ tier: quick
//@ funcs: index::wal::Wal::open (append mode, incl. whatever it does to the existing tail), Wal::append_delete_doc_id, Wal::sync, Wal::replay
//@ symbolic: the id c of the operation queued after the restart; the first crash tore the FIRST record of an empty log at offset t = 1, 3 or 5 (2, 4, 6 in the thorough tier); a restarted writer opens the log, appends `delete(c)` and syncs; second crash
//@ bounds: 2 crashes, tear offsets 1, 3, 5 inside the first record of the log
//@ oracle: after the second restart the recovered operations are exactly [delete c]
//@ assumes: as c02_wal_roundtrip_dcd
#[kani::proof]
#[kani::unwind(8)]
#[kani::stub(std::backtrace::Backtrace::capture, stub_backtrace)]
#[kani::stub(alloc::fmt::format, stub_format)]
#[kani::stub(crc32fast::Hasher::internal_new_specialized, stub_crc_specialized)]
#[kani::stub(serde_json::from_slice, stub_from_slice)]
#[kani::stub(core::str::from_utf8, stub_from_utf8)]
fn c02_wal_append_after_torn_first_record() {
  let c = any_ascii();
  let st = build_dcd(b'a', b'b');
  let full = st.bytes().clone();
  kani::assume(full.len() == D + C + D);
  each_first_tear!(&full, c; 1, 3, 5);
  kani::cover!(c != b'a', "distinct ids");
}

//@ props: C02
//@ tier: quick
//@ funcs: index::wal::Wal::open, Wal::append_delete_doc_id, Wal::sync, Wal::replay
//@ symbolic: nothing - the same scenario as c02_wal_append_after_torn_first_record with the concrete id "c", at EVERY tear offset 1..6 of the first record (a concrete companion: if the operation appended after the restart lands behind garbage, the symbolic variant has to parse symbolic bytes as record framing and may not finish; this one always does)
//@ bounds: 2 crashes, every tear offset inside the first record of the log, concrete ids
//@ oracle: after the second restart the recovered operations are exactly [delete c]
//@ assumes: as c02_wal_roundtrip_dcd
#[kani::proof]
#[kani::unwind(8)]
#[kani::stub(std::backtrace::Backtrace::capture, stub_backtrace)]
#[kani::stub(alloc::fmt::format, stub_format)]
#[kani::stub(crc32fast::Hasher::internal_new_specialized, stub_crc_specialized)]
#[kani::stub(serde_json::from_slice, stub_from_slice)]
#[kani::stub(core::str::from_utf8, stub_from_utf8)]
fn c02_wal_append_after_torn_first_record_concrete() {
  let st = build_dcd(b'a', b'b');
  let full = st.bytes().clone();
  kani::assume(full.len() == D + C + D);
  each_first_tear!(&full, b'c'; 1, 2, 3, 4, 5, 6);
  kani::cover!(full.len() == 20, "scenario executed");
}

//@ like: c02_wal_append_after_torn_first_record
//@ tier: thorough
//@ timeout: 2700
//@ symbolic: as c02_wal_append_after_torn_first_record for the tear offsets 2, 4 and 6
//@ bounds: 2 crashes, tear offsets 2, 4, 6 inside the first record of the log
#[kani::proof]
#[kani::unwind(8)]
#[kani::stub(std::backtrace::Backtrace::capture, stub_backtrace)]
#[kani::stub(alloc::fmt::format, stub_format)]
#[kani::stub(crc32fast::Hasher::internal_new_specialized, stub_crc_specialized)]
#[kani::stub(serde_json::from_slice, stub_from_slice)]
#[kani::stub(core::str::from_utf8, stub_from_utf8)]
fn c02_wal_append_after_torn_first_record_even() {
  let c = any_ascii();
  let st = build_dcd(b'a', b'b');
  let full = st.bytes().clone();
  kani::assume(full.len() == D + C + D);
  each_first_tear!(&full, c; 2, 4, 6);
  kani::cover!(c != b'a', "distinct ids");
}

//@ props: C02
//@ tier: quick
//@ funcs: index::wal::Wal::open, Wal::len, Wal::append_commit, Wal::truncate_to, Wal::truncate, Wal::append_delete_doc_id, Wal::replay
//@ symbolic: ids a, b, c of queued deletes
//@ bounds: 3 records
//@ oracle: (failed commit) truncate_to(length before the marker) leaves exactly the ops queued before the attempt pending, and a later append is recovered after them; (rollback / successful commit) truncate() leaves nothing pending and later appends are recovered alone; a rollback issued right after a restart (before anything is appended, with the append cursor at 0 as for a file on disk or at the end as for in-memory storage) also empties the log
//@ assumes: as c02_wal_roundtrip_dcd
#[kani::proof]
#[kani::unwind(8)]
#[kani::stub(std::backtrace::Backtrace::capture, stub_backtrace)]
#[kani::stub(alloc::fmt::format, stub_format)]
#[kani::stub(crc32fast::Hasher::internal_new_specialized, stub_crc_specialized)]
#[kani::stub(serde_json::from_slice, stub_from_slice)]
#[kani::stub(core::str::from_utf8, stub_from_utf8)]
fn c02_wal_truncate_semantics() {
  let (a, b, c) = (any_ascii(), any_ascii(), any_ascii());
  let st = Arc::new(MemStorage::new(Vec::new()));
  let p = PathBuf::new();
  let mut wal = ok(Wal::open(st.clone(), &p)).unwrap();
  assert!(ok(wal.append_delete_doc_id(&id1(a))).is_some());
  assert!(ok(wal.append_delete_doc_id(&id1(b))).is_some());
  let before = ok(wal.len()).unwrap();
  assert!(before as usize == 2 * D, "C02: len() does not report the bytes written");
  // commit attempt writes its marker, then fails: the marker is withdrawn
  assert!(ok(wal.append_commit()).is_some());
  assert!(ok(wal.truncate_to(before)).is_some());
  assert!(ok(wal.append_delete_doc_id(&id1(c))).is_some());
  let pend = replay_of(st.as_ref());
  assert!(
    pend.len() == 3 && is_delete(&pend[0], a) && is_delete(&pend[1], b) && is_delete(&pend[2], c),
    "C02: ops queued before a failed commit are not retryable in order"
  );
  std::mem::forget(pend);
  // rollback / successful commit: log emptied, later ops stand alone
  assert!(ok(wal.truncate()).is_some());
  let none = replay_of(st.as_ref());
  assert!(none.is_empty(), "C02: rolled-back or committed ops are still in the log");
  assert!(ok(wal.append_delete_doc_id(&id1(c))).is_some());
  let one = replay_of(st.as_ref());
  assert!(one.len() == 1 && is_delete(&one[0], c), "C02: op appended after truncate is not recovered");
  kani::cover!(a == c, "same id re-queued");
  std::mem::forget(one);
  std::mem::forget(none);
  std::mem::forget(wal);
  // restart with a recovered operation in the log, roll back BEFORE queueing anything new
  // (file on disk: the append cursor of a freshly opened log is at 0; in-memory storage: at the end)
  let full = st.bytes().clone();
  let disk = Arc::new(MemStorage::new_fs_like(full.clone()));
  let mut w2 = ok(Wal::open(disk.clone(), &p)).unwrap();
  assert!(ok(w2.truncate()).is_some());
  let after = replay_of(disk.as_ref());
  assert!(after.is_empty(), "C02: rollback right after a restart leaves the recovered operations in the log (they would be re-applied)");
  std::mem::forget(after);
  std::mem::forget(w2);
  let mem = Arc::new(MemStorage::new(full));
  let mut w3 = ok(Wal::open(mem.clone(), &p)).unwrap();
  assert!(ok(w3.truncate()).is_some());
  let after = replay_of(mem.as_ref());
  assert!(after.is_empty(), "C02: rollback right after a restart leaves the recovered operations in the log (in-memory storage)");
  std::mem::forget(after);
  std::mem::forget(w3);
}

// `Wal::last_pending_ops` itself (a filter that keeps the operations after the last
// commit marker) was tried on symbolic logs (moves between the two entry vectors exhaust
// 25 GB) and on four concrete logs (900 s timeout): it is outside the claim; the
// harnesses above use `pending_from`, the specification of that filter.

//@ props: C02
//@ tier: quick
//@ funcs: index::wal::Wal::open, Wal::truncate, Wal::append_delete_doc_id, Wal::replay
//@ symbolic: nothing - concrete companion of the restart/rollback part of c02_wal_truncate_semantics (ids "a", "b"; append cursor at 0 as for a file on disk): if a rollback leaves recovered operations in the log, the symbolic variant has to re-parse symbolic records behind them and may not finish; this one always does
//@ bounds: 2 records, concrete ids
//@ oracle: a rollback (truncate) issued right after a restart empties the log, and an operation queued afterwards is the only one recovered
//@ assumes: as c02_wal_roundtrip_dcd
#[kani::proof]
#[kani::unwind(8)]
#[kani::stub(std::backtrace::Backtrace::capture, stub_backtrace)]
#[kani::stub(alloc::fmt::format, stub_format)]
#[kani::stub(crc32fast::Hasher::internal_new_specialized, stub_crc_specialized)]
#[kani::stub(serde_json::from_slice, stub_from_slice)]
#[kani::stub(core::str::from_utf8, stub_from_utf8)]
fn c02_wal_rollback_after_restart_concrete() {
  let p = PathBuf::new();
  let first = Arc::new(MemStorage::new_fs_like(Vec::new()));
  let mut w1 = ok(Wal::open(first.clone(), &p)).unwrap();
  assert!(ok(w1.append_delete_doc_id("a")).is_some());
  assert!(ok(w1.sync()).is_some());
  std::mem::forget(w1);
  // restart: the log holds delete("a"); the new writer rolls back before queueing anything
  let disk = Arc::new(MemStorage::new_fs_like(first.bytes().clone()));
  let mut w2 = ok(Wal::open(disk.clone(), &p)).unwrap();
  assert!(ok(w2.truncate()).is_some());
  let after = replay_of(disk.as_ref());
  assert!(after.is_empty(), "C02: rollback right after a restart leaves the recovered operations in the log (they would be re-applied)");
  std::mem::forget(after);
  assert!(ok(w2.append_delete_doc_id("b")).is_some());
  assert!(ok(w2.sync()).is_some());
  std::mem::forget(w2);
  let last = replay_of(disk.as_ref());
  assert!(last.len() == 1 && is_delete(&last[0], b'b'), "C02: after a rollback only the operations queued afterwards may be recovered");
  std::mem::forget(last);
  kani::cover!(first.bytes().len() == D, "one record was written before the restart");
}

fn corrupt_case(full: &[u8], pos: usize, a: u8, b: u8, mask: u8) {
  let mut bytes = full.to_vec();
  bytes[pos] ^= mask;
  let img = MemStorage::new(bytes);
  let entries = replay_of(&img);
  let intact_before = expected_records(pos);
  assert!(entries.len() >= intact_before, "C17: records before the corrupted byte were lost");
  if entries.len() >= 1 {
    assert!(is_delete(&entries[0], a), "C17: corrupted log returned a different first operation");
  }
  if entries.len() >= 2 {
    assert!(is_commit(&entries[1]), "C17: corrupted log returned a different second record");
  }
  if entries.len() >= 3 {
    assert!(is_delete(&entries[2], b), "C17: corrupted log returned a different third operation");
  }
  // the record containing the corrupted byte (and everything after it) is not recovered
  assert!(entries.len() == intact_before, "C17: a corrupted record passed its checksum");
  std::mem::forget(entries);
  std::mem::forget(img);
}

macro_rules! each_pos {
  ($full:expr, $a:expr, $b:expr, $m:expr; $($t:expr),*) => { $( corrupt_case($full, $t, $a, $b, $m); )* };
}

//@ props: C17
//@ tier: quick
//@ funcs: index::wal::Wal::replay, util::varint::read_u64, crc32fast (portable path)
//@ symbolic: ids a, b; ONE payload or checksum byte of the 20-byte log `delete(a), commit, delete(b)` (positions 2, 3, 6 of the first record, 9 and 12 of the commit marker) is xor-ed with an ARBITRARY non-zero mask
//@ bounds: 20-byte log, 5 payload/checksum positions, every one-byte change (other positions: thorough tier / the framing harness below)
//@ oracle: replay never panics and returns exactly the records lying wholly before the corrupted byte: never a different operation, never the corrupted record or one behind it
//@ assumes: as c02_wal_roundtrip_dcd
#[kani::proof]
#[kani::unwind(8)]
#[kani::stub(std::backtrace::Backtrace::capture, stub_backtrace)]
#[kani::stub(alloc::fmt::format, stub_format)]
#[kani::stub(crc32fast::Hasher::internal_new_specialized, stub_crc_specialized)]
#[kani::stub(serde_json::from_slice, stub_from_slice)]
#[kani::stub(core::str::from_utf8, stub_from_utf8)]
fn c17_wal_single_byte_corruption() {
  let (a, b) = (any_ascii(), any_ascii());
  let st = build_dcd(a, b);
  let full = st.bytes().clone();
  kani::assume(full.len() == D + C + D);
  let mask: u8 = kani::any();
  kani::assume(mask != 0);
  each_pos!(&full, a, b, mask; 2, 3, 6, 9, 12);
  kani::cover!(mask == 0x80, "high-bit flip");
}

/// A hand-built one-record log `[length 1][type][one payload byte][4 checksum bytes]`.
fn one_record(type_byte: u8, payload: u8, k: &[u8; 4]) -> MemStorage {
  let mut v = Vec::with_capacity(D);
  v.push(1u8);
  v.push(type_byte);
  v.push(payload);
  v.push(k[0]);
  v.push(k[1]);
  v.push(k[2]);
  v.push(k[3]);
  MemStorage::new(v)
}

fn accepted(st: &MemStorage) -> usize {
  let e = replay_of(st);
  let n = e.len();
  std::mem::forget(e);
  n
}

//@ props: C17
//@ tier: quick
//@ funcs: index::wal::Wal::replay (which bytes of a record its checksum binds)
//@ symbolic: the 4 stored checksum bytes (any value), the payload byte a and a different payload byte a2; one-record logs that differ from each other ONLY in the type byte (delete vs commit) or only in the payload byte
//@ bounds: one record with a 1-byte payload (hand-built: in a log produced by the writer a re-typed frame makes the later parsing symbolic and the run does not finish in 15 minutes)
//@ oracle: whatever checksum bytes are stored, two records that differ only in their type byte are never both accepted, nor two that differ only in the payload - i.e. a one-byte change of the type or payload of an accepted record is always detected (a delete cannot turn into a commit marker); some checksum value is accepted (the harness is not vacuous)
//@ assumes: as c02_wal_roundtrip_dcd; record layout [varint length][type][payload][4 checksum bytes] (with another layout no hand-built record is accepted and the harness is reported inconclusive)
#[kani::proof]
#[kani::unwind(8)]
#[kani::stub(std::backtrace::Backtrace::capture, stub_backtrace)]
#[kani::stub(alloc::fmt::format, stub_format)]
#[kani::stub(crc32fast::Hasher::internal_new_specialized, stub_crc_specialized)]
#[kani::stub(serde_json::from_slice, stub_from_slice)]
#[kani::stub(core::str::from_utf8, stub_from_utf8)]
fn c17_wal_checksum_binds_type_and_payload() {
  let a = any_ascii();
  let a2 = any_ascii();
  kani::assume(a2 != a);
  let k: [u8; 4] = kani::any();
  let as_delete = accepted(&one_record(3, a, &k));
  let as_commit = accepted(&one_record(2, a, &k));
  let other_payload = accepted(&one_record(3, a2, &k));
  assert!(as_delete <= 1 && as_commit <= 1 && other_payload <= 1, "C17: one record produced several entries");
  assert!(!(as_delete == 1 && as_commit == 1), "C17: the record checksum does not cover the type byte (a delete and a commit marker share a checksum)");
  assert!(!(as_delete == 1 && other_payload == 1), "C17: the record checksum does not cover the payload");
  kani::cover!(as_delete == 1, "some stored checksum is accepted for the delete record");
  kani::cover!(as_commit == 1, "some stored checksum is accepted for the commit-typed record");
}

//@ like: c17_wal_single_byte_corruption
//@ tier: thorough
//@ timeout: 2700
//@ symbolic: as c17_wal_single_byte_corruption for the checksum positions 4, 5, 10, 11 and the last record's payload/checksum positions 15..19
//@ bounds: 20-byte log, 9 further payload/checksum positions, every one-byte change
#[kani::proof]
#[kani::unwind(8)]
#[kani::stub(std::backtrace::Backtrace::capture, stub_backtrace)]
#[kani::stub(alloc::fmt::format, stub_format)]
#[kani::stub(crc32fast::Hasher::internal_new_specialized, stub_crc_specialized)]
#[kani::stub(serde_json::from_slice, stub_from_slice)]
#[kani::stub(core::str::from_utf8, stub_from_utf8)]
fn c17_wal_single_byte_corruption_rest() {
  let (a, b) = (any_ascii(), any_ascii());
  let st = build_dcd(a, b);
  let full = st.bytes().clone();
  kani::assume(full.len() == D + C + D);
  let mask: u8 = kani::any();
  kani::assume(mask != 0);
  each_pos!(&full, a, b, mask; 4, 5, 10, 11, 15, 16, 17, 18, 19);
  kani::cover!(mask == 1, "low-bit flip");
}

//@ props: C17, C16
//@ tier: quick
//@ funcs: util::varint::read_u64, util::varint::write_u64
//@ symbolic: any u64 (round trip); any 11-byte buffer (decoder robustness)
//@ bounds: buffers of 11 bytes (one more than the longest valid varint)
//@ oracle: read_u64(write_u64(v)) = (v, bytes written); on arbitrary bytes read_u64 returns Ok or Err without panicking (no shift overflow)
#[kani::proof]
#[kani::unwind(13)]
#[kani::stub(std::backtrace::Backtrace::capture, stub_backtrace)]
#[kani::stub(alloc::fmt::format, stub_format)]
fn c17_varint_roundtrip_and_garbage() {
  let v: u64 = kani::any();
  let mut buf = Vec::new();
  write_u64(v, &mut buf);
  assert!(buf.len() >= 1 && buf.len() <= 10, "C17: varint length out of range");
  match ok(read_u64(&buf)) {
    Some((got, n)) => assert!(got == v && n == buf.len(), "C17: varint round trip changed the value"),
    None => assert!(false, "C17: own varint rejected"),
  }
  let junk: [u8; 11] = kani::any();
  let r = read_u64(&junk);
  kani::cover!(r.is_err(), "unterminated varint rejected");
  kani::cover!(v > u32::MAX as u64, "large value");
  std::mem::forget(r);
  std::mem::forget(buf);
}
