//! Harnesses attached as a child module of searchlite-core/src/query/aggs/mod.rs
//! (private items: CompositeKey, CompositeKeyPart, merge_stats, QuantileState).
//@@ crate: searchlite-core
//@@ attach: searchlite-core/src/query/aggs/mod.rs
use super::*;

/// kind 0 = terms source (1-byte ASCII string), kind 1 = histogram source (f64 bits)
fn any_part(kind: bool) -> CompositeKeyPart {
  if kind {
    CompositeKeyPart::F64(kani::any())
  } else {
    let b: u8 = kani::any();
    kani::assume(b < 0x80);
    CompositeKeyPart::Str(unsafe { String::from_utf8_unchecked(vec![b]) })
  }
}

fn any_ckey(k0: bool, k1: bool) -> CompositeKey {
  CompositeKey {
    parts: vec![any_part(k0), any_part(k1)],
  }
}

fn part_eq(a: &CompositeKeyPart, b: &CompositeKeyPart) -> bool {
  match (a, b) {
    (CompositeKeyPart::Str(x), CompositeKeyPart::Str(y)) => x.as_bytes()[0] == y.as_bytes()[0],
    (CompositeKeyPart::F64(x), CompositeKeyPart::F64(y)) => x == y,
    _ => false,
  }
}

//@ props: C30
//@ tier: quick
//@ funcs: query::aggs::CompositeKey::cmp, CompositeKey::partial_cmp (operators), query::aggs::CompositeKeyPart::cmp
//@ symbolic: source kinds (terms / histogram) of 2 key positions; three keys with any 1-byte ASCII term or any f64 bit pattern per part
//@ bounds: 3 keys x 2 parts, 1-byte strings
//@ oracle: cmp is a strict total order consistent with equality (Equal iff identical parts; antisymmetric; transitive), the comparison operators / partial_cmp agree with it - the condition under which "keep the buckets whose key is greater than after" neither drops nor repeats a bucket; histogram parts are ordered numerically
#[kani::proof]
#[kani::unwind(4)]
fn c30_composite_key_total_order() {
  let k0: bool = kani::any();
  let k1: bool = kani::any();
  let a = any_ckey(k0, k1);
  let b = any_ckey(k0, k1);
  let c = any_ckey(k0, k1);
  let ab = a.cmp(&b);
  let bc = b.cmp(&c);
  let ac = a.cmp(&c);
  assert!(b.cmp(&a) == ab.reverse(), "C30: composite key order is not antisymmetric");
  // `finalize_composite` keeps the buckets with `key > after`: the comparison operators
  // must agree with the order the buckets are sorted by
  assert!(a.partial_cmp(&b) == Some(ab), "C30: PartialOrd of composite keys disagrees with Ord (the after filter and the sort would use different orders)");
  assert!((a > b) == (ab == Ordering::Greater), "C30: `key > after` disagrees with the sort order of composite keys");
  let same = part_eq(&a.parts[0], &b.parts[0]) && part_eq(&a.parts[1], &b.parts[1]);
  assert!((ab == Ordering::Equal) == same, "C30: composite keys compare Equal without being identical (or the reverse)");
  if ab != Ordering::Greater && bc != Ordering::Greater {
    assert!(ac != Ordering::Greater, "C30: composite key order is not transitive");
    if ab == Ordering::Less || bc == Ordering::Less {
      assert!(ac == Ordering::Less, "C30: composite key order is not transitive (strict)");
    }
  }
  // numeric order of histogram keys (what the unpaged response is sorted by)
  if let (CompositeKeyPart::F64(x), CompositeKeyPart::F64(y)) = (&a.parts[0], &b.parts[0]) {
    let (fx, fy) = (f64::from_bits(*x), f64::from_bits(*y));
    if fx < fy {
      assert!(ab == Ordering::Less, "C30: histogram keys are not ordered numerically");
    }
  }
  // first position dominates
  if !part_eq(&a.parts[0], &b.parts[0]) {
    assert!(ab == a.parts[0].cmp(&b.parts[0]), "C30: first source does not dominate the order");
  }
  kani::cover!(ab == Ordering::Less && bc == Ordering::Less && k0 && !k1, "strict chain over (histogram, terms) keys");
  kani::cover!(same, "identical keys");
  std::mem::forget(a);
  std::mem::forget(b);
  std::mem::forget(c);
}

//@ props: C30
//@ tier: quick
//@ funcs: query::aggs::CompositeKey::cmp, CompositeKey::partial_cmp, query::aggs::CompositeKeyPart::cmp
//@ symbolic: two keys whose parts mix kinds at the same position (terms value against histogram value) or differ in length, any contents
//@ bounds: 2 keys x 1..2 parts
//@ oracle: even for keys of different shape (which one source list never produces) the order stays antisymmetric, never reports Equal for different keys, and the operators agree with cmp - which of the two sorts first is a convention and not asserted
#[kani::proof]
#[kani::unwind(4)]
fn c30_composite_key_mixed_kinds() {
  let a = CompositeKey {
    parts: vec![any_part(false)],
  };
  let b = CompositeKey {
    parts: vec![any_part(true)],
  };
  let ab = a.cmp(&b);
  assert!(ab != Ordering::Equal && b.cmp(&a) == ab.reverse(), "C30: keys of different kinds must be ordered consistently");
  assert!(a.partial_cmp(&b) == Some(ab), "C30: operators disagree with cmp for mixed-kind keys");
  let long = CompositeKey {
    parts: vec![any_part(false), any_part(true)],
  };
  let al = a.cmp(&long);
  assert!(al != Ordering::Equal && long.cmp(&a) == al.reverse(), "C30: a key and its proper extension must be ordered consistently");
  kani::cover!(part_eq(&a.parts[0], &long.parts[0]), "prefix case reached");
  kani::cover!(ab == Ordering::Less || ab == Ordering::Greater, "mixed kinds compared");
  std::mem::forget(a);
  std::mem::forget(b);
  std::mem::forget(long);
}

//@ props: C30
//@ tier: thorough
//@ timeout: 2700
//@ funcs: query::aggs::CompositeKey::cmp, CompositeKey::partial_cmp, query::aggs::CompositeKeyPart::cmp
//@ symbolic: source kinds of 3 key positions; three keys with any 1-byte ASCII term or any f64 bit pattern per part
//@ bounds: 3 keys x 3 parts (composite aggregations with three sources)
//@ oracle: antisymmetry, transitivity, Equal iff identical, operators agree with cmp
#[kani::proof]
#[kani::unwind(5)]
fn c30_composite_key_total_order_3_sources() {
  let k: [bool; 3] = kani::any();
  let mk = || CompositeKey {
    parts: vec![any_part(k[0]), any_part(k[1]), any_part(k[2])],
  };
  let (a, b, c) = (mk(), mk(), mk());
  let ab = a.cmp(&b);
  assert!(b.cmp(&a) == ab.reverse(), "C30: composite key order is not antisymmetric");
  assert!(a.partial_cmp(&b) == Some(ab) && (a > b) == (ab == Ordering::Greater), "C30: operators disagree with the sort order of composite keys");
  let same = part_eq(&a.parts[0], &b.parts[0]) && part_eq(&a.parts[1], &b.parts[1]) && part_eq(&a.parts[2], &b.parts[2]);
  assert!((ab == Ordering::Equal) == same, "C30: composite keys compare Equal without being identical (or the reverse)");
  if ab != Ordering::Greater && b.cmp(&c) != Ordering::Greater {
    assert!(a.cmp(&c) != Ordering::Greater, "C30: composite key order is not transitive");
  }
  kani::cover!(ab == Ordering::Less && part_eq(&a.parts[0], &b.parts[0]) && part_eq(&a.parts[1], &b.parts[1]), "decided by the third source");
  kani::cover!(same, "identical keys");
  std::mem::forget(a);
  std::mem::forget(b);
  std::mem::forget(c);
}

// --------------------------------------------------------------------------
// C12: merge kernels
// --------------------------------------------------------------------------

fn single(v: f64) -> StatsState {
  StatsState {
    count: 1,
    min: v,
    max: v,
    sum: v,
    m2: 0.0,
  }
}

fn small_int() -> f64 {
  let i: i32 = kani::any();
  kani::assume(i >= -1_000_000 && i <= 1_000_000);
  i as f64
}

fn fold(vals: &[f64]) -> StatsState {
  let mut s = StatsState::default();
  let mut i = 0;
  while i < vals.len() {
    s = merge_stats(s, single(vals[i]));
    i += 1;
  }
  s
}

//@ props: C12
//@ tier: quick
//@ funcs: query::aggs::merge_stats (as used by StatsCollector::collect and by the cross-segment merge)
//@ symbolic: three field values (integers in +-10^6, so f64 sums are exact); the segmentation 2|1, merged in both orders
//@ bounds: 3 values, 2 segments (a symbolic split point or a 4th value does not finish within the budget)
//@ oracle: count, min, max and sum of merge(segment A, segment B) equal those of one segment holding all values, in both merge orders; min/max/sum are the extreme values / the sum
//@ outside: m2 / variance (floating-point rounding differs by association); non-integer values
#[kani::proof]
#[kani::unwind(5)]
fn c12_merge_stats_split_invariant() {
  let v = [small_int(), small_int(), small_int()];
  let whole = fold(&v);
  let (a2, b2) = (fold(&v[..2]), fold(&v[2..]));
  let merged = [merge_stats(a2, b2), merge_stats(b2, a2)];
  let mut k = 0;
  while k < 2 {
    assert!(merged[k].count == 3 && whole.count == 3, "C12: stats count depends on segmentation");
    assert!(merged[k].min == whole.min, "C12: stats min depends on segmentation");
    assert!(merged[k].max == whole.max, "C12: stats max depends on segmentation");
    assert!(merged[k].sum == whole.sum, "C12: stats sum depends on segmentation");
    k += 1;
  }
  let mut lo = v[0];
  let mut hi = v[0];
  let mut i = 1;
  while i < 3 {
    if v[i] < lo {
      lo = v[i];
    }
    if v[i] > hi {
      hi = v[i];
    }
    i += 1;
  }
  assert!(whole.min == lo && whole.max == hi, "C12: stats min/max are not the extreme values");
  assert!(whole.sum == v[0] + v[1] + v[2], "C12: stats sum is not the sum of the values");
  let empty = merge_stats(StatsState::default(), StatsState::default());
  assert!(empty.count == 0, "C12: merging two empty states must stay empty");
  kani::cover!(v[2] < v[0] && v[0] < v[1], "minimum in the second segment");
  kani::cover!(v[0] == v[1] && v[1] == v[2], "all values equal");
}

// The m2 / variance term of merge_stats with an exact oracle: four integer values,
// segmentation 2|2 — every count is a power of two, so every mean, delta and m2 is a
// dyadic rational that f64 represents exactly, and 4*m2 = 4*sum(x^2) - (sum x)^2 holds
// bit for bit.  With values in +-1000 the symbolic f64 multiplications did not get
// through the SAT solver in 900 s; with 3-bit values (-4..=3) constant propagation
// through the int->f64 conversion leaves a formula the solver decides.

fn tiny_int() -> (i32, f64) {
  ranged_int(-4, 3)
}

fn ranged_int(lo: i32, hi: i32) -> (i32, f64) {
  let i: i32 = kani::any();
  kani::assume(i >= lo && i <= hi);
  (i, i as f64)
}

//@ props: C12
//@ tier: quick
//@ funcs: query::aggs::merge_stats (the m2 / variance term used by extended_stats: sum of squares, variance, std deviation)
//@ symbolic: four integer field values in -4..=3; two segments of two documents each, merged in both orders
//@ bounds: 4 values (3 bits each), segmentation 2|2 (all counts powers of two, so the f64 arithmetic is exact and the oracle needs no tolerance)
//@ oracle: n*m2 of the merged state equals n*sum(x^2) - (sum x)^2 computed in integer arithmetic (the definition of the sum of squared deviations), for both merge orders; count/sum as for one segment
//@ outside: segment sizes that are not powers of two (f64 rounding makes the comparison inexact), larger values
#[kani::proof]
#[kani::unwind(4)]
fn c12_merge_stats_variance_term_exact() {
  let (i0, x0) = tiny_int();
  let (i1, x1) = tiny_int();
  let (i2, x2) = tiny_int();
  let (i3, x3) = tiny_int();
  let a = merge_stats(merge_stats(StatsState::default(), single(x0)), single(x1));
  let b = merge_stats(merge_stats(StatsState::default(), single(x2)), single(x3));
  let sum = i0 + i1 + i2 + i3;
  let sq = i0 * i0 + i1 * i1 + i2 * i2 + i3 * i3;
  let want4 = (4 * sq - sum * sum) as f64;
  let ab = merge_stats(a, b);
  assert!(ab.count == 4 && ab.sum == sum as f64, "C12: stats count/sum depend on segmentation");
  assert!(ab.m2 * 4.0 == want4, "C12: the merged sum of squared deviations (variance / std deviation of extended_stats) differs from the single-segment value");
  let ba = merge_stats(b, a);
  assert!(ba.m2 * 4.0 == want4, "C12: the merged sum of squared deviations depends on the merge order");
  kani::cover!(i0 == i1 && i2 == i3 && i0 != i2, "both segments have zero variance but different means");
  kani::cover!(want4 == 0.0, "all values equal");
}

fn qstate(vals: &[f64]) -> QuantileState {
  let mut q = QuantileState::default();
  let mut i = 0;
  while i < vals.len() {
    q.push(vals[i]);
    i += 1;
  }
  q
}

//@ props: C12
//@ tier: quick
//@ funcs: query::aggs::QuantileState::push, QuantileState::merge, QuantileState::percentile, QuantileState::percentile_rank (exact mode)
//@ symbolic: three field values (integers in +-10^6), the rank target (integer); segmentations 1|2, empty|3 and 3|empty; percents 0, 50, 100
//@ bounds: 3 values (exact mode, far below the 256-value switch to t-digest), 2 segments, concrete percents without interpolation (a symbolic percent, or the interpolating 25th percentile, ran past 15-25 minutes)
//@ oracle: percentile and percentile_rank of the merged per-segment states equal those of a single state that saw all values; percentile(0)/(100) are the minimum/maximum and percentile(50) the median
//@ outside: t-digest (approximate) mode; interpolated percentiles; more than 3 values
#[kani::proof]
#[kani::unwind(6)]
fn c12_quantile_merge_split_invariant() {
  let v = [small_int(), small_int(), small_int()];
  let target = small_int();
  let mut whole = qstate(&v);
  let mut ab = qstate(&v[..1]);
  ab.merge(qstate(&v[1..]));
  let mut lo = v[0];
  let mut hi = v[0];
  let mut i = 1;
  while i < 3 {
    if v[i] < lo {
      lo = v[i];
    }
    if v[i] > hi {
      hi = v[i];
    }
    i += 1;
  }
  let p0 = whole.percentile(0.0);
  let p50 = whole.percentile(50.0);
  let p100 = whole.percentile(100.0);
  assert!(p0 == lo, "C12: percentile 0 is not the minimum");
  assert!(p100 == hi, "C12: percentile 100 is not the maximum");
  assert!(p50 >= lo && p50 <= hi && (p50 == v[0] || p50 == v[1] || p50 == v[2]), "C12: percentile 50 of three values is not one of them");
  assert!(ab.percentile(50.0).to_bits() == p50.to_bits(), "C12: exact median depends on segmentation");
  assert!(ab.percentile(0.0) == p0 && ab.percentile(100.0) == p100, "C12: exact extreme percentiles depend on segmentation");
  // an empty segment (no matching document, or none with the field) merged first
  let mut ea = QuantileState::default();
  ea.merge(qstate(&v));
  assert!(ea.percentile(50.0).to_bits() == p50.to_bits() && ea.percentile(0.0) == p0, "C12: an empty first segment changes the exact percentiles");
  let mut ae = qstate(&v);
  ae.merge(QuantileState::default());
  assert!(ae.percentile(100.0) == p100, "C12: an empty second segment changes the exact percentiles");
  let rw = whole.percentile_rank(target);
  assert!(ab.percentile_rank(target).to_bits() == rw.to_bits(), "C12: percentile rank depends on segmentation");
  let below = (v[0] <= target) as u32 + (v[1] <= target) as u32 + (v[2] <= target) as u32;
  assert!((rw == 0.0) == (below == 0) && (rw == 100.0) == (below == 3), "C12: percentile rank is not the share of values <= target");
  kani::cover!(v[2] < v[0] && v[0] < v[1], "unsorted input");
  kani::cover!(below == 2, "two of three values at or below the target");
  std::mem::forget(whole);
  std::mem::forget(ab);
  std::mem::forget(ea);
  std::mem::forget(ae);
}


//@ props: C12
//@ tier: thorough
//@ timeout: 2700
//@ funcs: query::aggs::merge_stats (the m2 / variance term)
//@ symbolic: four integer field values in -16..=15 (5 bits); two segments of two documents each, merged in both orders
//@ bounds: 4 values (5 bits each), segmentation 2|2
//@ oracle: as c12_merge_stats_variance_term_exact
//@ outside: segment sizes that are not powers of two, larger values
#[kani::proof]
#[kani::unwind(4)]
fn c12_merge_stats_variance_term_exact_5bit() {
  let (i0, x0) = ranged_int(-16, 15);
  let (i1, x1) = ranged_int(-16, 15);
  let (i2, x2) = ranged_int(-16, 15);
  let (i3, x3) = ranged_int(-16, 15);
  let a = merge_stats(merge_stats(StatsState::default(), single(x0)), single(x1));
  let b = merge_stats(merge_stats(StatsState::default(), single(x2)), single(x3));
  let sum = i0 + i1 + i2 + i3;
  let sq = i0 * i0 + i1 * i1 + i2 * i2 + i3 * i3;
  let want4 = (4 * sq - sum * sum) as f64;
  let ab = merge_stats(a, b);
  assert!(ab.m2 * 4.0 == want4, "C12: the merged sum of squared deviations (variance / std deviation of extended_stats) differs from the single-segment value");
  let ba = merge_stats(b, a);
  assert!(ba.m2 * 4.0 == want4, "C12: the merged sum of squared deviations depends on the merge order");
  kani::cover!(i0 == 15 && i1 == -16, "extreme values in one segment");
}
