//! Harnesses attached as a child module of searchlite-core/src/query/phrase.rs.
//@@ crate: searchlite-core
//@@ attach: searchlite-core/src/query/phrase.rs
use super::*;
use smallvec::SmallVec;

fn entry(doc: DocId, p0: u32, p1: u32) -> PostingEntry {
  let mut positions: SmallVec<[u32; 4]> = SmallVec::new();
  positions.push(p0);
  positions.push(p1);
  PostingEntry {
    doc_id: doc,
    term_freq: 2,
    positions,
  }
}

fn one(e: PostingEntry) -> Vec<PostingEntry> {
  let mut v = Vec::with_capacity(1);
  v.push(e);
  v
}

fn pl2(a: PostingEntry, b: PostingEntry) -> Vec<Vec<PostingEntry>> {
  let mut v = Vec::with_capacity(2);
  v.push(one(a));
  v.push(one(b));
  v
}

fn gap(a: u32, b: u32) -> Option<u32> {
  // tokens between position a and a later position b
  if b > a {
    Some(b - a - 1)
  } else {
    None
  }
}

// Three-term phrases (3 x 2 positions, then 2+1+1 positions) were tried in the thorough
// tier: the recursive `search` over three position lists exhausts 14 GB (after 29 and 6
// minutes).  Two terms is what CBMC decides here.

//@ props: C07
//@ tier: quick
//@ funcs: query::phrase::matches_phrase
//@ symbolic: positions of 2 phrase terms (2 sorted positions each, < 2^24), slop < 2^16; plus the case where the second term does not occur in the document
//@ bounds: 2 terms x 2 positions; documents of up to 16M tokens (beyond 2^31 tokens the i32 slop budget of the implementation overflows: outside the claim)
//@ oracle: no panic/overflow; matches iff the second term occurs in the document and some pair p<q has q-p-1 <= slop (slop compared as the implementation's documented i32 budget when it fits)
#[kani::proof]
#[kani::unwind(8)]
fn c07_phrase_two_terms_full_range() {
  let p: [u32; 4] = kani::any();
  kani::assume(p[0] < p[1] && p[2] < p[3]);
  let slop: u32 = kani::any();
  kani::assume(slop < (1 << 16));
  kani::assume(p[1] < (1 << 24) && p[3] < (1 << 24));
  let postings = pl2(entry(7, p[0], p[1]), entry(7, p[2], p[3]));
  let got = matches_phrase(&postings, 7, slop);
  let absent = pl2(entry(7, p[0], p[1]), entry(9, p[2], p[3]));
  assert!(!matches_phrase(&absent, 7, slop), "C07: phrase matched although one term does not occur in the document");
  std::mem::forget(absent);
  let mut want = false;
  let mut a = 0;
  while a < 2 {
    let mut b = 0;
    while b < 2 {
      if let Some(g) = gap(p[a], p[2 + b]) {
        if g <= slop && g <= i32::MAX as u32 {
          want = true;
        }
      }
      b += 1;
    }
    a += 1;
  }
  assert!(got == want, "C07: two-term phrase disagrees with the phrase/slop semantics");
  kani::cover!(got && p[3] > 0x80_0000, "large positions");
  std::mem::forget(postings);
}
