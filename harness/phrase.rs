//! Harnesses attached as a child module of searchlite-core/src/query/phrase.rs.
//@@ crate: searchlite-core
//@@ attach: searchlite-core/src/query/phrase.rs
use super::*;
use smallvec::SmallVec;

fn entry(doc: DocId, p0: u32, p1: u32) -> PostingEntry {
  let mut positions: SmallVec<[u32; 4]> = SmallVec::new();
  positions.push(p0);
  positions.push(p1);
  PostingEntry {
    doc_id: doc,
    term_freq: 2,
    positions,
  }
}

fn one(e: PostingEntry) -> Vec<PostingEntry> {
  let mut v = Vec::with_capacity(1);
  v.push(e);
  v
}

fn pl3(a: PostingEntry, b: PostingEntry, c: PostingEntry) -> Vec<Vec<PostingEntry>> {
  let mut v = Vec::with_capacity(3);
  v.push(one(a));
  v.push(one(b));
  v.push(one(c));
  v
}

fn pl2(a: PostingEntry, b: PostingEntry) -> Vec<Vec<PostingEntry>> {
  let mut v = Vec::with_capacity(2);
  v.push(one(a));
  v.push(one(b));
  v
}

fn gap(a: u32, b: u32) -> Option<u32> {
  // tokens between position a and a later position b
  if b > a {
    Some(b - a - 1)
  } else {
    None
  }
}

fn entry1(doc: DocId, p0: u32) -> PostingEntry {
  let mut positions: SmallVec<[u32; 4]> = SmallVec::new();
  positions.push(p0);
  PostingEntry {
    doc_id: doc,
    term_freq: 1,
    positions,
  }
}

//@ props: C07
//@ tier: thorough
//@ timeout: 2700
//@ funcs: query::phrase::matches_phrase (incl. its recursive `search`)
//@ symbolic: positions of 3 phrase terms in one document (2 sorted positions for the first term, 1 each for the others, values < 16), slop 0..3
//@ bounds: 3 terms with 2+1+1 positions, positions < 16, slop <= 3 (3 x 2 positions exhausted 14 GB after 29 minutes)
//@ oracle: matches iff some choice of one position per term is strictly increasing and the number of skipped tokens between consecutive terms sums to <= slop
#[kani::proof]
#[kani::unwind(8)]
fn c07_phrase_three_terms_reference() {
  let p: [u32; 4] = kani::any();
  kani::assume(p[0] < 16 && p[1] < 16 && p[2] < 16 && p[3] < 16);
  kani::assume(p[0] < p[1]);
  let slop: u32 = kani::any();
  kani::assume(slop <= 3);
  let postings = pl3(entry(7, p[0], p[1]), entry1(7, p[2]), entry1(7, p[3]));
  let got = matches_phrase(&postings, 7, slop);
  let mut want = false;
  let mut a = 0;
  while a < 2 {
    if let (Some(g1), Some(g2)) = (gap(p[a], p[2]), gap(p[2], p[3])) {
      if g1 + g2 <= slop {
        want = true;
      }
    }
    a += 1;
  }
  assert!(got == want, "C07: matches_phrase disagrees with the phrase/slop semantics (3 terms)");
  kani::cover!(got && slop == 0, "exact 3-term phrase");
  kani::cover!(got && p[2] > p[1] + 1, "match through the second occurrence with slop");
  std::mem::forget(postings);
}

//@ props: C07
//@ tier: quick
//@ funcs: query::phrase::matches_phrase
//@ symbolic: positions of 2 phrase terms (2 sorted positions each, < 2^24), slop < 2^16; plus the case where the second term does not occur in the document
//@ bounds: 2 terms x 2 positions; documents of up to 16M tokens (beyond 2^31 tokens the i32 slop budget of the implementation overflows: outside the claim)
//@ oracle: no panic/overflow; matches iff the second term occurs in the document and some pair p<q has q-p-1 <= slop (slop compared as the implementation's documented i32 budget when it fits)
#[kani::proof]
#[kani::unwind(8)]
fn c07_phrase_two_terms_full_range() {
  let p: [u32; 4] = kani::any();
  kani::assume(p[0] < p[1] && p[2] < p[3]);
  let slop: u32 = kani::any();
  kani::assume(slop < (1 << 16));
  kani::assume(p[1] < (1 << 24) && p[3] < (1 << 24));
  let postings = pl2(entry(7, p[0], p[1]), entry(7, p[2], p[3]));
  let got = matches_phrase(&postings, 7, slop);
  let absent = pl2(entry(7, p[0], p[1]), entry(9, p[2], p[3]));
  assert!(!matches_phrase(&absent, 7, slop), "C07: phrase matched although one term does not occur in the document");
  std::mem::forget(absent);
  let mut want = false;
  let mut a = 0;
  while a < 2 {
    let mut b = 0;
    while b < 2 {
      if let Some(g) = gap(p[a], p[2 + b]) {
        if g <= slop && g <= i32::MAX as u32 {
          want = true;
        }
      }
      b += 1;
    }
    a += 1;
  }
  assert!(got == want, "C07: two-term phrase disagrees with the phrase/slop semantics");
  kani::cover!(got && p[3] > 0x80_0000, "large positions");
  std::mem::forget(postings);
}
