//! Shared helpers for the Kani harnesses (compiled only under cfg(kani)).
#![allow(dead_code)]

pub fn stub_backtrace() -> std::backtrace::Backtrace {
  std::backtrace::Backtrace::disabled()
}

pub fn stub_format(_args: std::fmt::Arguments<'_>) -> String {
  String::new()
}

/// Hand-written UTF-8 well-formedness predicate (loop bounded by the slice
/// length). Cross-checked natively against std::str::from_utf8 by the engine's
/// self-test (`./check --selftest`).
pub fn utf8_ok(b: &[u8]) -> bool {
  let n = b.len();
  let mut i = 0usize;
  while i < n {
    let c = b[i];
    if c < 0x80 {
      i += 1;
    } else if c >= 0xC2 && c <= 0xDF {
      if i + 1 >= n || !cont(b[i + 1]) {
        return false;
      }
      i += 2;
    } else if c >= 0xE0 && c <= 0xEF {
      if i + 2 >= n {
        return false;
      }
      let c1 = b[i + 1];
      let ok1 = match c {
        0xE0 => c1 >= 0xA0 && c1 <= 0xBF,
        0xED => c1 >= 0x80 && c1 <= 0x9F,
        _ => cont(c1),
      };
      if !ok1 || !cont(b[i + 2]) {
        return false;
      }
      i += 3;
    } else if c >= 0xF0 && c <= 0xF4 {
      if i + 3 >= n {
        return false;
      }
      let c1 = b[i + 1];
      let ok1 = match c {
        0xF0 => c1 >= 0x90 && c1 <= 0xBF,
        0xF4 => c1 >= 0x80 && c1 <= 0x8F,
        _ => cont(c1),
      };
      if !ok1 || !cont(b[i + 2]) || !cont(b[i + 3]) {
        return false;
      }
      i += 4;
    } else {
      return false;
    }
  }
  true
}

#[inline]
fn cont(c: u8) -> bool {
  c & 0xC0 == 0x80
}

// BEGIN core-only
/// Stub for crc32fast's runtime CPU-feature dispatch: always take the portable
/// table implementation (the PCLMULQDQ one is inline asm, unsupported by CBMC).
pub fn stub_crc_specialized(_init: u32, _amount: u64) -> Option<crc32fast::Hasher> {
  None
}
// END core-only
