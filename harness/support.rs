//! Shared helpers for the Kani harnesses (compiled only under cfg(kani)).
#![allow(dead_code)]

pub fn stub_backtrace() -> std::backtrace::Backtrace {
  std::backtrace::Backtrace::disabled()
}

pub fn stub_format(_args: std::fmt::Arguments<'_>) -> String {
  String::new()
}

/// Hand-written UTF-8 well-formedness predicate (loop bounded by the slice
/// length). Cross-checked natively against std::str::from_utf8 by the engine's
/// self-test (`./check --selftest`).
pub fn utf8_ok(b: &[u8]) -> bool {
  let n = b.len();
  let mut i = 0usize;
  while i < n {
    let c = b[i];
    if c < 0x80 {
      i += 1;
    } else if c >= 0xC2 && c <= 0xDF {
      if i + 1 >= n || !cont(b[i + 1]) {
        return false;
      }
      i += 2;
    } else if c >= 0xE0 && c <= 0xEF {
      if i + 2 >= n {
        return false;
      }
      let c1 = b[i + 1];
      let ok1 = match c {
        0xE0 => c1 >= 0xA0 && c1 <= 0xBF,
        0xED => c1 >= 0x80 && c1 <= 0x9F,
        _ => cont(c1),
      };
      if !ok1 || !cont(b[i + 2]) {
        return false;
      }
      i += 3;
    } else if c >= 0xF0 && c <= 0xF4 {
      if i + 3 >= n {
        return false;
      }
      let c1 = b[i + 1];
      let ok1 = match c {
        0xF0 => c1 >= 0x90 && c1 <= 0xBF,
        0xF4 => c1 >= 0x80 && c1 <= 0x8F,
        _ => cont(c1),
      };
      if !ok1 || !cont(b[i + 2]) || !cont(b[i + 3]) {
        return false;
      }
      i += 4;
    } else {
      return false;
    }
  }
  true
}

#[inline]
fn cont(c: u8) -> bool {
  c & 0xC0 == 0x80
}

// BEGIN core-only
use crate::storage::{Storage, StorageFile};
use std::io::{Read, Seek, SeekFrom, Write};

/// One-file in-memory storage driven through the real `Storage` / `StorageFile`
/// traits (append-mode semantics: every write lands at the end of the file).
pub struct Shared(pub *mut Vec<u8>);
unsafe impl Send for Shared {}
unsafe impl Sync for Shared {}

pub struct MemStorage {
  pub data: Shared,
  pub root: std::path::PathBuf,
  /// Where the cursor of a file opened for append starts: `true` = at 0 like a real
  /// O_APPEND `File` (FsStorage; writes still land at the end), `false` = at the end
  /// like the crate's InMemoryStorage.
  pub append_cursor_at_start: bool,
}

pub struct MemFile {
  pub data: Shared,
  pub pos: u64,
}

impl MemStorage {
  pub fn new(image: Vec<u8>) -> Self {
    MemStorage {
      data: Shared(Box::into_raw(Box::new(image))),
      root: std::path::PathBuf::new(),
      append_cursor_at_start: false,
    }
  }
  /// Same, with the append cursor starting at 0 as for a file on disk.
  pub fn new_fs_like(image: Vec<u8>) -> Self {
    MemStorage {
      data: Shared(Box::into_raw(Box::new(image))),
      root: std::path::PathBuf::new(),
      append_cursor_at_start: true,
    }
  }
  pub fn bytes(&self) -> &mut Vec<u8> {
    unsafe { &mut *self.data.0 }
  }
}

impl Read for MemFile {
  fn read(&mut self, buf: &mut [u8]) -> std::io::Result<usize> {
    let d = unsafe { &*self.data.0 };
    let p = self.pos as usize;
    if p >= d.len() {
      return Ok(0);
    }
    let n = std::cmp::min(buf.len(), d.len() - p);
    buf[..n].copy_from_slice(&d[p..p + n]);
    self.pos += n as u64;
    Ok(n)
  }
}

impl Write for MemFile {
  fn write(&mut self, buf: &[u8]) -> std::io::Result<usize> {
    // O_APPEND: every write lands at the current end of the file
    let d = unsafe { &mut *self.data.0 };
    d.extend_from_slice(buf);
    self.pos = d.len() as u64;
    Ok(buf.len())
  }
  fn flush(&mut self) -> std::io::Result<()> {
    Ok(())
  }
}

impl Seek for MemFile {
  fn seek(&mut self, to: SeekFrom) -> std::io::Result<u64> {
    let d = unsafe { &*self.data.0 };
    self.pos = match to {
      SeekFrom::Start(p) => p,
      SeekFrom::End(o) => (d.len() as i64 + o) as u64,
      SeekFrom::Current(o) => (self.pos as i64 + o) as u64,
    };
    Ok(self.pos)
  }
}

impl StorageFile for MemFile {
  fn set_len(&mut self, len: u64) -> anyhow::Result<()> {
    let d = unsafe { &mut *self.data.0 };
    d.resize(len as usize, 0);
    Ok(())
  }
  fn sync_all(&mut self) -> anyhow::Result<()> {
    Ok(())
  }
}

impl Storage for MemStorage {
  fn root(&self) -> &std::path::Path {
    &self.root
  }
  fn ensure_dir(&self, _path: &std::path::Path) -> anyhow::Result<()> {
    Ok(())
  }
  fn exists(&self, _path: &std::path::Path) -> bool {
    true
  }
  fn open_read(&self, _path: &std::path::Path) -> anyhow::Result<crate::storage::DynFile> {
    Ok(Box::new(MemFile {
      data: Shared(self.data.0),
      pos: 0,
    }))
  }
  fn open_write(&self, path: &std::path::Path) -> anyhow::Result<crate::storage::DynFile> {
    self.open_read(path)
  }
  fn open_append(&self, _path: &std::path::Path) -> anyhow::Result<crate::storage::DynFile> {
    Ok(Box::new(MemFile {
      data: Shared(self.data.0),
      pos: if self.append_cursor_at_start { 0 } else { self.bytes().len() as u64 },
    }))
  }
  fn read_to_end(&self, _path: &std::path::Path) -> anyhow::Result<Vec<u8>> {
    Ok(self.bytes().clone())
  }
  fn write_all(&self, _path: &std::path::Path, _data: &[u8]) -> anyhow::Result<()> {
    Ok(())
  }
  fn atomic_write(&self, _path: &std::path::Path, _data: &[u8]) -> anyhow::Result<()> {
    Ok(())
  }
  fn remove(&self, _path: &std::path::Path) -> anyhow::Result<()> {
    Ok(())
  }
  fn remove_dir_all(&self, _path: &std::path::Path) -> anyhow::Result<()> {
    Ok(())
  }
}


/// Stub for crc32fast's runtime CPU-feature dispatch: always take the portable
/// table implementation (the PCLMULQDQ one is inline asm, unsupported by CBMC).
pub fn stub_crc_specialized(_init: u32, _amount: u64) -> Option<crc32fast::Hasher> {
  None
}
// END core-only
