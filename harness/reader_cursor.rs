//! Harnesses attached as a child module of searchlite-core/src/api/reader.rs
//@@ crate: searchlite-core
//@@ attach: searchlite-core/src/api/reader.rs
use super::*;
use crate::verif_support::*;

//@ harness: c16_hex_decode_any4
//@ props: C16
//@ tier: quick
//@ funcs: api::reader::hex_decode
//@ bounds: cursor string = any well-formed UTF-8 string of exactly 4 bytes (any mix of 1-4 byte characters)
//@ oracle: returns Ok or Err; no panic / unwrap failure / OOB
#[kani::proof]
#[kani::unwind(6)]
#[kani::stub(std::backtrace::Backtrace::capture, stub_backtrace)]
#[kani::stub(alloc::fmt::format, stub_format)]
fn c16_hex_decode_any4() {
  let b: [u8; 4] = kani::any();
  kani::assume(utf8_ok(&b));
  let s = unsafe { std::str::from_utf8_unchecked(&b) };
  let r = hex_decode(s);
  kani::cover!(r.is_ok(), "some 4-byte string decodes");
  kani::cover!(r.is_err(), "some 4-byte string is rejected");
  kani::cover!(b[0] >= 0x80, "non-ASCII lead byte reached the decoder");
  std::mem::forget(r);
}
