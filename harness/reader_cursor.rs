//! Harnesses attached as a child module of searchlite-core/src/api/reader.rs:
//! cursor codec (C11, C16), request-string kernels (C16), suggestion kernels
//! (C22), rescore score combination (C19), bounded top-k heap (C11).
//@@ crate: searchlite-core
//@@ attach: searchlite-core/src/api/reader.rs
// Declared abstraction for bounded_levenshtein only: SmallVec (inline-capacity union) -> Vec.
// With the union representation CBMC runs out of memory even for one symbolic character.
//@@ rewrite_in: searchlite-core/src/api/reader.rs :: ^fn bounded_levenshtein\( :: SmallVec<[char; 32]> ==> Vec<char>
//@@ rewrite_in: searchlite-core/src/api/reader.rs :: ^fn bounded_levenshtein\( :: SmallVec<[usize; 64]> ==> Vec<usize>
//@@ rewrite_in: searchlite-core/src/api/reader.rs :: ^fn bounded_levenshtein\( :: smallvec![ ==> vec![
//@@ slice: cursor_chunk_step
//@@ slice: cursor_fields
//@@ slice: cursor_layout
//@@ slice: cursor_generation_check
//@@ slice: cursor_length_guard
use super::*;
use crate::verif_support::*;

fn as_str(b: &[u8]) -> &str {
  unsafe { std::str::from_utf8_unchecked(b) }
}

// --------------------------------------------------------------------------
// C16: request strings never panic
// --------------------------------------------------------------------------

//@ props: C16
//@ tier: quick
//@ funcs: api::reader::hex_decode
//@ symbolic: cursor string = every well-formed UTF-8 string of exactly 4 bytes (any mix of 1-4 byte characters)
//@ bounds: 4 bytes (2 hex chunks); longer cursors repeat the same 2-byte chunk step
//@ oracle: returns Ok or Err; no panic / unwrap failure / out-of-bounds; Ok only for hex digits
#[kani::proof]
#[kani::unwind(6)]
#[kani::stub(std::backtrace::Backtrace::capture, stub_backtrace)]
#[kani::stub(alloc::fmt::format, stub_format)]
fn c16_hex_decode_any4() {
  let b: [u8; 4] = kani::any();
  kani::assume(utf8_ok(&b));
  let r = hex_decode(as_str(&b));
  if r.is_ok() {
    assert!(
      b.iter().all(|c| c.is_ascii_hexdigit() || *c == b'+'),
      "C16/C11: non-hex cursor accepted"
    );
  }
  kani::cover!(r.is_ok(), "some 4-byte string decodes");
  kani::cover!(r.is_err() && b[0] >= 0x80, "non-ASCII cursor is rejected with an error");
  std::mem::forget(r);
}

fn hex_decode_odd<const N: usize>() {
  let b: [u8; N] = kani::any();
  kani::assume(utf8_ok(&b));
  let r = hex_decode(as_str(&b));
  assert!(r.is_err(), "C16: odd-length hex string accepted");
  kani::cover!(b[0] >= 0x80, "non-ASCII odd-length input");
  std::mem::forget(r);
}

//@ props: C16
//@ tier: quick
//@ funcs: api::reader::hex_decode
//@ symbolic: every well-formed UTF-8 string of exactly 3 bytes
//@ bounds: odd length 3
//@ oracle: odd-length cursors are rejected with Err, never a panic
#[kani::proof]
#[kani::unwind(7)]
#[kani::stub(std::backtrace::Backtrace::capture, stub_backtrace)]
#[kani::stub(alloc::fmt::format, stub_format)]
fn c16_hex_decode_odd3() {
  hex_decode_odd::<3>()
}

//@ props: C16, C11
//@ tier: quick
//@ funcs: api::reader::PaginationCursor::decode (source slice: body of its per-chunk loop)
//@ symbolic: the 2-byte chunk = ANY two bytes (chunking by bytes can split a multi-byte character, so chunks need not be valid UTF-8); the chunk index
//@ bounds: one chunk (the 42-byte cursor is 21 repetitions of this step; the whole decode does not get through symbolic execution, see engine/slices.py)
//@ oracle: no panic / unwrap failure; Ok(v) only for two hex digits (or '+' and one hex digit, which from_str_radix accepts) and v is their value; everything else is Err
#[kani::proof]
#[kani::unwind(6)]
#[kani::stub(std::backtrace::Backtrace::capture, stub_backtrace)]
#[kani::stub(alloc::fmt::format, stub_format)]
fn c16_cursor_chunk_any_bytes() {
  let c: [u8; 2] = kani::any();
  let i: usize = kani::any();
  kani::assume(i < 21);
  let r = slice_cursor_chunk(i, &c);
  fn hexval(b: u8) -> Option<u8> {
    match b {
      b'0'..=b'9' => Some(b - b'0'),
      b'a'..=b'f' => Some(b - b'a' + 10),
      b'A'..=b'F' => Some(b - b'A' + 10),
      _ => None,
    }
  }
  match &r {
    Ok(v) => match (hexval(c[0]), hexval(c[1])) {
      (Some(h), Some(l)) => assert!(*v == h * 16 + l, "C11: hex chunk decoded to the wrong byte"),
      (None, Some(l)) => assert!(c[0] == b'+' && *v == l, "C16/C11: non-hex cursor chunk accepted"),
      _ => assert!(false, "C16/C11: non-hex cursor chunk accepted"),
    },
    Err(_) => assert!(hexval(c[0]).is_none() || hexval(c[1]).is_none(), "C11: valid hex chunk rejected"),
  }
  kani::cover!(r.is_err() && c[0] >= 0x80, "half of a multi-byte character is rejected with an error");
  kani::cover!(r.is_ok() && c[0] == b'f', "hex digits decode");
  std::mem::forget(r);
}

//@ props: C11, C16
//@ tier: quick
//@ funcs: api::reader::PaginationCursor::decode (source slice: everything after the hex loop), api::reader::score_sort_key
//@ symbolic: the 21 decoded cursor bytes (any values)
//@ bounds: the fixed 21-byte score cursor
//@ oracle: no panic; Ok implies the current cursor version and returned <= 50000, and the accepted bytes are exactly what encode's layout produces for the decoded cursor (layout(fields(b)) = b)
#[kani::proof]
#[kani::unwind(23)]
#[kani::stub(std::backtrace::Backtrace::capture, stub_backtrace)]
#[kani::stub(alloc::fmt::format, stub_format)]
fn c11_cursor_fields_any_bytes() {
  let b: [u8; CURSOR_BYTES] = kani::any();
  let r = slice_cursor_fields(b);
  if let Ok(c) = &r {
    assert!(c.version == CURSOR_VERSION, "C11: cursor with a foreign version accepted");
    assert!(c.returned as usize <= MAX_CURSOR_ADVANCE, "C11: cursor advance above the cap accepted");
    assert!(matches!(c.key.parts[0].order, SortOrder::Desc), "C11: score cursor key must be descending");
    // the decoded cursor re-encodes to the same bytes (layout-independent consistency)
    let back = slice_cursor_layout(c);
    let mut i = 0;
    while i < CURSOR_BYTES {
      assert!(back[i] == b[i], "C11: decode and encode disagree about the cursor layout");
      i += 1;
    }
  }
  kani::cover!(r.is_ok(), "accepted");
  kani::cover!(r.is_err() && b[0] == CURSOR_VERSION, "cursor with the current version rejected (advance cap)");
  std::mem::forget(r);
}

//@ props: C11
//@ tier: quick
//@ funcs: api::reader::PaginationCursor::encode (source slice: byte layout), PaginationCursor::decode (source slice: field extraction)
//@ symbolic: generation, score bits (every f32 incl. NaN payloads and -0), segment ordinal, doc id, returned count
//@ bounds: the fixed 21-byte layout
//@ oracle: fields(layout(c)) = c for every cursor with returned <= 50000 (and Err above the cap)
//@ outside: the hex text itself (a String built from a symbolic or table-looked-up char has a symbolic length for the symbolic executor: even 16 concrete byte values took > 15 min and 10 GB); the decode side of the hex step is c16_cursor_chunk_any_bytes
#[kani::proof]
#[kani::unwind(8)]
#[kani::stub(std::backtrace::Backtrace::capture, stub_backtrace)]
#[kani::stub(alloc::fmt::format, stub_format)]
fn c11_score_cursor_roundtrip() {
  let generation: u32 = kani::any();
  let bits: u32 = kani::any();
  let segment_ord: u32 = kani::any();
  let doc_id: u32 = kani::any();
  let returned: u32 = kani::any();
  let cur = PaginationCursor {
    version: CURSOR_VERSION,
    generation,
    key: score_sort_key(f32::from_bits(bits), segment_ord, doc_id, SortOrder::Desc),
    returned,
  };
  let layout = slice_cursor_layout(&cur);
  let r = slice_cursor_fields(layout);
  match &r {
    Ok(d) => {
      assert!(returned as usize <= MAX_CURSOR_ADVANCE, "C11: cursor above the advance cap accepted");
      assert!(d.generation == generation, "C11: generation lost in cursor round trip");
      assert!(d.key.score_bits() == Some(bits), "C11: score bits lost in cursor round trip");
      assert!(d.key.segment_ord == segment_ord && d.key.doc_id == doc_id, "C11: segment/doc lost in cursor round trip");
      assert!(d.returned == returned, "C11: returned count lost in cursor round trip");
      assert!(d.key.cmp(&cur.key) == std::cmp::Ordering::Equal, "C11: decoded key does not compare equal to the original");
    }
    Err(_) => assert!(returned as usize > MAX_CURSOR_ADVANCE, "C11: own cursor rejected"),
  }
  kani::cover!(r.is_ok() && f32::from_bits(bits).is_nan(), "NaN score round trips");
  kani::cover!(r.is_err(), "over-cap cursor rejected");
  std::mem::forget(r);
  std::mem::forget(cur);
}

//@ props: C16
//@ tier: quick
//@ funcs: api::reader::PaginationCursor::decode
//@ symbolic: every well-formed UTF-8 string of exactly 4 bytes
//@ bounds: length 4 (a wrong length for a score cursor; the length test does not depend on the content)
//@ oracle: wrong-length cursors are rejected with Err, never a panic
#[kani::proof]
#[kani::unwind(8)]
#[kani::stub(std::backtrace::Backtrace::capture, stub_backtrace)]
#[kani::stub(alloc::fmt::format, stub_format)]
fn c16_score_cursor_wrong_length() {
  let b: [u8; 4] = kani::any();
  kani::assume(utf8_ok(&b));
  let r = PaginationCursor::decode(as_str(&b));
  assert!(r.is_err(), "C16: short cursor accepted");
  kani::cover!(b[0] >= 0xF0, "4-byte character");
  std::mem::forget(r);
}

//@ props: C16, C11
//@ tier: quick
//@ funcs: api::reader::PaginationCursor::decode (slice: the statements before the per-chunk loop - length guard and decode buffer)
//@ symbolic: the length of the cursor string, every value 0..=64 (ASCII content; the guard does not look at it)
//@ bounds: lengths 0..=64 (the valid length is 42)
//@ oracle: the guard lets a cursor through only if its number of 2-byte chunks fits the decode buffer the loop indexes (no out-of-bounds write for over-long cursors), and every length other than CURSOR_HEX_LEN is rejected with Err
//@ assumes: alloc::fmt::format stubbed (error message text); slice extraction by anchor lines
//@ outside: the loop body (c16_cursor_chunk_any_bytes) and the field extraction (c11_cursor_fields_any_bytes) are separate harnesses
#[kani::proof]
#[kani::unwind(3)]
#[kani::stub(std::backtrace::Backtrace::capture, stub_backtrace)]
#[kani::stub(alloc::fmt::format, stub_format)]
fn c16_score_cursor_length_guard() {
  let buf = [b'0'; 64];
  let n: usize = kani::any();
  kani::assume(n <= 64);
  let raw = as_str(&buf[..n]);
  let r = slice_cursor_length_guard(raw);
  match &r {
    Ok(cap) => {
      assert!(n / 2 <= *cap, "C16: the cursor length guard admits a string with more 2-byte chunks than the decode buffer holds (index out of bounds in the decode loop)");
      assert!(n == CURSOR_HEX_LEN, "C16: a cursor of the wrong length passes the length guard");
    }
    Err(_) => assert!(n != CURSOR_HEX_LEN, "C11: a cursor of the right length is rejected by the length guard"),
  }
  kani::cover!(r.is_ok(), "a well-sized cursor passes");
  kani::cover!(r.is_err() && n > CURSOR_HEX_LEN, "an over-long cursor is rejected");
  std::mem::forget(r);
}

//@ props: C16, C22
//@ tier: quick
//@ funcs: api::reader::char_prefix
//@ symbolic: every well-formed UTF-8 string of exactly 4 bytes; requested prefix length 0..6
//@ bounds: 4 bytes, len <= 6
//@ oracle: no panic (slicing on a char boundary); result is a prefix of the input holding min(len, chars) characters
#[kani::proof]
#[kani::unwind(7)]
fn c22_char_prefix_spec() {
  let b: [u8; 4] = kani::any();
  kani::assume(utf8_ok(&b));
  let len: usize = kani::any();
  kani::assume(len <= 6);
  let s = as_str(&b);
  let p = char_prefix(s, len);
  // number of characters = number of non-continuation bytes
  let mut total = 0usize;
  let mut in_p = 0usize;
  let mut i = 0;
  while i < 4 {
    if b[i] & 0xC0 != 0x80 {
      total += 1;
      if i < p.len() {
        in_p += 1;
      }
    }
    i += 1;
  }
  assert!(p.len() <= 4, "C22: prefix longer than input");
  assert!(p.is_empty() || p.as_ptr() == s.as_ptr(), "C22: char_prefix is not a prefix");
  assert!(p.len() == 4 || b[p.len()] & 0xC0 != 0x80, "C22: prefix ends inside a character");
  let want = if len < total { len } else { total };
  assert!(in_p == want, "C22: char_prefix does not hold min(len, chars) characters");
  kani::cover!(total == 2 && len == 1 && p.len() == 3, "prefix of one 3-byte character");
}

//@ props: C16
//@ tier: quick
//@ funcs: api::reader::wildcard_literal_prefix, api::reader::regex_literal_prefix
//@ symbolic: every well-formed UTF-8 pattern of exactly 4 bytes
//@ bounds: 4 bytes
//@ oracle: no panic; the wildcard literal prefix is a prefix of the pattern without '*' or '?'; the regex literal prefix is never longer than the pattern
#[kani::proof]
#[kani::unwind(7)]
fn c16_pattern_prefixes_any4() {
  let b: [u8; 4] = kani::any();
  kani::assume(utf8_ok(&b));
  let s = as_str(&b);
  let w = wildcard_literal_prefix(s);
  assert!(w.len() <= 4 && w.as_ptr() == s.as_ptr(), "C16: wildcard literal prefix is not a prefix");
  let mut i = 0;
  while i < w.len() {
    assert!(b[i] != b'*' && b[i] != b'?', "C16: wildcard char inside literal prefix");
    i += 1;
  }
  let r = regex_literal_prefix(s);
  assert!(r.len() <= 4, "C16: regex literal prefix longer than the pattern");
  kani::cover!(w.len() == 2 && b[2] == b'*', "wildcard prefix stops at '*'");
  kani::cover!(r.len() == 3 && b[0] == b'\\', "escaped character kept in regex prefix");
  kani::cover!(b[0] >= 0xE0, "multi-byte pattern");
  std::mem::forget(r);
}

// --------------------------------------------------------------------------
// C11: cursor codec
// --------------------------------------------------------------------------

//@ props: C11
//@ tier: quick
//@ funcs: api::reader::decode_cursor (source slice: the generation test applied to a decoded score cursor)
//@ symbolic: generation the cursor was issued for, generation of the index it is presented to, score bits, segment, doc, returned
//@ bounds: one decoded cursor
//@ oracle: a cursor presented to a different index generation is rejected with Err; to the same generation it yields the same key and count
#[kani::proof]
#[kani::unwind(6)]
#[kani::stub(std::backtrace::Backtrace::capture, stub_backtrace)]
#[kani::stub(alloc::fmt::format, stub_format)]
fn c11_stale_generation_rejected() {
  let issued: u32 = kani::any();
  let presented: u32 = kani::any();
  let bits: u32 = kani::any();
  let segment_ord: u32 = kani::any();
  let doc_id: u32 = kani::any();
  let returned: u32 = kani::any();
  let key = score_sort_key(f32::from_bits(bits), segment_ord, doc_id, SortOrder::Desc);
  let cur = PaginationCursor {
    version: CURSOR_VERSION,
    generation: issued,
    key: key.clone(),
    returned,
  };
  let r = slice_cursor_generation_check(cur, presented);
  match &r {
    Ok(st) => {
      assert!(issued == presented, "C11: cursor from another index generation accepted");
      assert!(st.returned == returned, "C11: returned count changed");
      assert!(st.key.cmp(&key) == std::cmp::Ordering::Equal, "C11: cursor key changed");
    }
    Err(_) => assert!(issued != presented, "C11: own cursor rejected"),
  }
  kani::cover!(r.is_ok(), "same generation accepted");
  kani::cover!(r.is_err(), "stale generation rejected");
  std::mem::forget(r);
  std::mem::forget(key);
}

// --------------------------------------------------------------------------
// C22: edit distance kernel
// --------------------------------------------------------------------------

fn ref_lev3(a: &[u8], b: &[u8]) -> usize {
  // textbook dynamic programme on a fixed 4x4 table (lengths <= 3)
  let mut d = [[0usize; 4]; 4];
  let mut i = 0;
  while i <= a.len() {
    d[i][0] = i;
    i += 1;
  }
  let mut j = 0;
  while j <= b.len() {
    d[0][j] = j;
    j += 1;
  }
  let mut i = 1;
  while i <= a.len() {
    let mut j = 1;
    while j <= b.len() {
      let cost = if a[i - 1] == b[j - 1] { 0 } else { 1 };
      let mut v = d[i - 1][j] + 1;
      if d[i][j - 1] + 1 < v {
        v = d[i][j - 1] + 1;
      }
      if d[i - 1][j - 1] + cost < v {
        v = d[i - 1][j - 1] + cost;
      }
      d[i][j] = v;
      j += 1;
    }
    i += 1;
  }
  d[a.len()][b.len()]
}

/// ASCII-only stand-ins for `Chars::next` / `Chars::count`.  On ASCII strings
/// (what the harness passes) they are exact; they make the number of characters
/// visible to the symbolic executor (with the real UTF-8 decoder every vector
/// length in bounded_levenshtein becomes symbolic and CBMC runs out of memory).
fn ascii_chars_next<'a>(c: &mut core::str::Chars<'a>) -> Option<char>
where
  'a: 'a,
{
  let it: &mut core::slice::Iter<'a, u8> =
    unsafe { &mut *(c as *mut core::str::Chars<'a> as *mut core::slice::Iter<'a, u8>) };
  match it.next() {
    Some(b) => Some(*b as char),
    None => None,
  }
}

fn ascii_chars_count<'a>(c: core::str::Chars<'a>) -> usize
where
  'a: 'a,
{
  c.as_str().len()
}

/// `a` = "abc" with its POS-th character replaced by an arbitrary ASCII byte,
/// compared with the concrete term B (more than one symbolic character does not
/// get through CBMC: measured, see DESIGN.md).
fn lev_one_symbolic<const POS: usize>(b: &str, m: usize) {
  let mut a = [b'a', b'b', b'c'];
  let x: u8 = kani::any();
  kani::assume(x < 0x80);
  a[POS] = x;
  let got = bounded_levenshtein(as_str(&a), b, m);
  let want = ref_lev3(&a, b.as_bytes());
  match got {
    Some(d) => {
      assert!(d == want, "C22: bounded_levenshtein returns a wrong distance");
      assert!(d <= m, "C22: bounded_levenshtein exceeds max_edits");
    }
    None => assert!(want > m, "C22: term within max_edits rejected"),
  }
}

//@ props: C22, C16
//@ tier: quick
//@ funcs: api::reader::bounded_levenshtein
//@ symbolic: one character (any ASCII byte) of the 3-character term "abc" at position 0 or 2; compared with the concrete dictionary terms "abc" (max_edits 1), "ab" (max_edits 2) and "ax" (shorter by exactly max_edits = 1, with a substitution)
//@ bounds: 3-character term with ONE symbolic character, concrete candidates, concrete max_edits (more than one symbolic character, or a symbolic max_edits on top, exhausts 12-25 GB)
//@ oracle: Some(d) iff the textbook Levenshtein distance d <= max_edits; no panic
//@ assumes: Chars::next / Chars::count replaced by ASCII-only versions (exact on ASCII input); the three SmallVec buffers of bounded_levenshtein replaced by Vec
//@ outside: more than one symbolic character, non-ASCII terms
#[kani::proof]
#[kani::unwind(6)]
#[kani::stub(<core::str::Chars as core::iter::Iterator>::next, ascii_chars_next)]
#[kani::stub(<core::str::Chars as core::iter::Iterator>::count, ascii_chars_count)]
fn c22_levenshtein_one_symbolic_char() {
  lev_one_symbolic::<0>("abc", 1);
  lev_one_symbolic::<2>("ab", 2);
  lev_one_symbolic::<2>("ax", 1);
  kani::cover!(true, "all candidate terms executed");
}

//@ props: C22
//@ tier: quick
//@ funcs: api::reader::distance_weight
//@ symbolic: edit distance 0..1000
//@ bounds: distances up to 1000
//@ oracle: the weight is positive, finite and never increases with the distance (so closer terms never rank below farther ones with the same doc_freq)
#[kani::proof]
fn c22_distance_weight_monotone() {
  let d: usize = kani::any();
  kani::assume(d <= 1000);
  let w = distance_weight(d);
  assert!(w > 0.0 && w.is_finite(), "C22: distance weight must be positive and finite (scores must stay comparable)");
  assert!(distance_weight(d + 1) <= w, "C22: a more distant term must not weigh more than a closer one");
  kani::cover!(d == 2, "distance 2");
}

// --------------------------------------------------------------------------
// C19: rescore score combination
// --------------------------------------------------------------------------

//@ props: C19
//@ tier: quick
//@ funcs: api::reader::combine_rescore_scores
//@ symbolic: original and rescore scores (every finite f32)
//@ assumes: scores are finite (non-finite scores are dropped before rescoring)
//@ bounds: all five modes
//@ oracle: total/sum = a+b, multiply = a*b, max = larger, min = smaller (bit-exact)
#[kani::proof]
fn c19_combine_rescore_modes() {
  let a: f32 = kani::any();
  let b: f32 = kani::any();
  kani::assume(a.is_finite() && b.is_finite());
  let t = combine_rescore_scores(RescoreMode::Total, a, b);
  let s = combine_rescore_scores(RescoreMode::Sum, a, b);
  let m = combine_rescore_scores(RescoreMode::Multiply, a, b);
  let mx = combine_rescore_scores(RescoreMode::Max, a, b);
  let mn = combine_rescore_scores(RescoreMode::Min, a, b);
  assert!(t.to_bits() == (a + b).to_bits(), "C19: total is not original + rescore");
  assert!(s.to_bits() == (a + b).to_bits(), "C19: sum is not original + rescore");
  assert!(m.to_bits() == (a * b).to_bits(), "C19: multiply is not original * rescore");
  assert!(mx == if a > b { a } else { b }, "C19: max is not the larger score");
  assert!(mn == if a < b { a } else { b }, "C19: min is not the smaller score");
  kani::cover!(a > b && mx == a && mn == b, "max/min distinguish");
  kani::cover!(b == 0.0 && a > 0.0 && m == 0.0 && mn == 0.0, "rescore score of exactly zero (multiply / min give 0)");
  kani::cover!(a > 0.0 && b > 0.0 && m < a, "multiply by a factor below one lowers the score");
}

//@ props: C16
//@ tier: thorough
//@ timeout: 2700
//@ funcs: api::reader::hex_decode
//@ symbolic: every well-formed UTF-8 string of exactly 6 bytes (3 hex chunks; characters can straddle either chunk boundary)
//@ bounds: 6 bytes
//@ oracle: returns Ok or Err; no panic; Ok only for hex digits (or a leading '+' per chunk)
#[kani::proof]
#[kani::unwind(8)]
#[kani::stub(std::backtrace::Backtrace::capture, stub_backtrace)]
#[kani::stub(alloc::fmt::format, stub_format)]
fn c16_hex_decode_any6() {
  let b: [u8; 6] = kani::any();
  kani::assume(utf8_ok(&b));
  let r = hex_decode(as_str(&b));
  if r.is_ok() {
    assert!(b.iter().all(|c| c.is_ascii_hexdigit() || *c == b'+'), "C16/C11: non-hex cursor accepted");
  }
  kani::cover!(r.is_err() && b[1] >= 0xE0, "3-byte character straddling the first chunk boundary");
  kani::cover!(r.is_ok(), "some 6-byte string decodes");
  std::mem::forget(r);
}

//@ props: C22, C16
//@ tier: thorough
//@ timeout: 2700
//@ funcs: api::reader::char_prefix
//@ symbolic: every well-formed UTF-8 string of exactly 6 bytes; requested prefix length 0..7
//@ bounds: 6 bytes, len <= 7
//@ oracle: no panic; the result is a prefix ending on a character boundary that holds min(len, chars) characters
#[kani::proof]
#[kani::unwind(9)]
fn c22_char_prefix_spec_6() {
  let b: [u8; 6] = kani::any();
  kani::assume(utf8_ok(&b));
  let len: usize = kani::any();
  kani::assume(len <= 7);
  let s = as_str(&b);
  let p = char_prefix(s, len);
  let mut total = 0usize;
  let mut in_p = 0usize;
  let mut i = 0;
  while i < 6 {
    if b[i] & 0xC0 != 0x80 {
      total += 1;
      if i < p.len() {
        in_p += 1;
      }
    }
    i += 1;
  }
  assert!(p.len() <= 6 && (p.is_empty() || p.as_ptr() == s.as_ptr()), "C22: char_prefix is not a prefix");
  assert!(p.len() == 6 || b[p.len()] & 0xC0 != 0x80, "C22: prefix ends inside a character");
  let want = if len < total { len } else { total };
  assert!(in_p == want, "C22: char_prefix does not hold min(len, chars) characters");
  kani::cover!(total == 2 && len == 1 && p.len() == 4, "prefix of one 4-byte character");
  kani::cover!(total == 3 && len == 2, "two of three characters");
}

//@ like: c22_levenshtein_one_symbolic_char
//@ tier: thorough
//@ timeout: 2700
//@ symbolic: one character (any ASCII byte) of the term "abc" at position 1; candidates "abc" (max_edits 2), "bc" (max_edits 1), "" (max_edits 3)
//@ bounds: 3-character term with ONE symbolic character, three further concrete candidates
#[kani::proof]
#[kani::unwind(6)]
#[kani::stub(<core::str::Chars as core::iter::Iterator>::next, ascii_chars_next)]
#[kani::stub(<core::str::Chars as core::iter::Iterator>::count, ascii_chars_count)]
fn c22_levenshtein_one_symbolic_char_more() {
  lev_one_symbolic::<1>("abc", 2);
  lev_one_symbolic::<1>("bc", 1);
  lev_one_symbolic::<1>("", 3);
  kani::cover!(true, "all candidate terms executed");
}
