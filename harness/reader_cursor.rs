//! Harnesses attached as a child module of searchlite-core/src/api/reader.rs:
//! cursor codec (C11, C16), request-string kernels (C16), suggestion kernels
//! (C22), rescore score combination (C19), bounded top-k heap (C11).
//@@ crate: searchlite-core
//@@ attach: searchlite-core/src/api/reader.rs
use super::*;
use crate::verif_support::*;

fn as_str(b: &[u8]) -> &str {
  unsafe { std::str::from_utf8_unchecked(b) }
}

// --------------------------------------------------------------------------
// C16: request strings never panic
// --------------------------------------------------------------------------

//@ props: C16
//@ tier: quick
//@ funcs: api::reader::hex_decode
//@ symbolic: cursor string = every well-formed UTF-8 string of exactly 4 bytes (any mix of 1-4 byte characters)
//@ bounds: 4 bytes (2 hex chunks); longer cursors repeat the same 2-byte chunk step
//@ oracle: returns Ok or Err; no panic / unwrap failure / out-of-bounds; Ok only for hex digits
#[kani::proof]
#[kani::unwind(6)]
#[kani::stub(std::backtrace::Backtrace::capture, stub_backtrace)]
#[kani::stub(alloc::fmt::format, stub_format)]
fn c16_hex_decode_any4() {
  let b: [u8; 4] = kani::any();
  kani::assume(utf8_ok(&b));
  let r = hex_decode(as_str(&b));
  if r.is_ok() {
    assert!(
      b.iter().all(|c| c.is_ascii_hexdigit() || *c == b'+'),
      "C16/C11: non-hex cursor accepted"
    );
  }
  kani::cover!(r.is_ok(), "some 4-byte string decodes");
  kani::cover!(r.is_err() && b[0] >= 0x80, "non-ASCII cursor is rejected with an error");
  std::mem::forget(r);
}

fn hex_decode_odd<const N: usize>() {
  let b: [u8; N] = kani::any();
  kani::assume(utf8_ok(&b));
  let r = hex_decode(as_str(&b));
  assert!(r.is_err(), "C16: odd-length hex string accepted");
  kani::cover!(b[0] >= 0x80, "non-ASCII odd-length input");
  std::mem::forget(r);
}

//@ props: C16
//@ tier: quick
//@ funcs: api::reader::hex_decode
//@ symbolic: every well-formed UTF-8 string of exactly 3 bytes
//@ bounds: odd length 3
//@ oracle: odd-length cursors are rejected with Err, never a panic
#[kani::proof]
#[kani::unwind(7)]
#[kani::stub(std::backtrace::Backtrace::capture, stub_backtrace)]
#[kani::stub(alloc::fmt::format, stub_format)]
fn c16_hex_decode_odd3() {
  hex_decode_odd::<3>()
}

/// 42-byte cursor: version "01", then concrete '0' digits, with a window of
/// W arbitrary well-formed UTF-8 bytes at the concrete offset OFF.
fn score_cursor_window<const OFF: usize, const W: usize>() {
  let mut b = [b'0'; 42];
  b[1] = b'1';
  let w: [u8; W] = kani::any();
  kani::assume(utf8_ok(&w));
  let mut i = 0;
  while i < W {
    b[OFF + i] = w[i];
    i += 1;
  }
  let r = PaginationCursor::decode(as_str(&b));
  if let Ok(c) = &r {
    assert!(c.version == CURSOR_VERSION, "C11: cursor with a foreign version accepted");
    assert!(c.returned as usize <= MAX_CURSOR_ADVANCE, "C11: cursor advance above the cap accepted");
    assert!(w[0] < 0x80, "C16: non-ASCII cursor accepted");
  }
  kani::cover!(r.is_ok(), "a 42-byte cursor decodes");
  kani::cover!(r.is_err() && w[0] >= 0xE0, "3/4-byte character inside the cursor is rejected");
  std::mem::forget(r);
}

//@ props: C16, C11
//@ tier: quick
//@ funcs: api::reader::PaginationCursor::decode
//@ symbolic: a 42-byte cursor whose bytes 3..7 are any well-formed UTF-8 (1-4 byte characters, straddling hex chunks at an odd offset); other bytes are concrete hex digits
//@ bounds: length 42 (the only length decode accepts); one symbolic window of 4 bytes at odd offset 3
//@ oracle: no panic; Ok implies version 1, returned <= 50000 and an ASCII window
#[kani::proof]
#[kani::unwind(44)]
#[kani::stub(std::backtrace::Backtrace::capture, stub_backtrace)]
#[kani::stub(alloc::fmt::format, stub_format)]
fn c16_score_cursor_decode_window_odd() {
  score_cursor_window::<3, 4>()
}

//@ like: c16_score_cursor_decode_window_odd
//@ symbolic: as c16_score_cursor_decode_window_odd with the window at even offset 4
//@ bounds: length 42; one symbolic window of 4 bytes at even offset 4
#[kani::proof]
#[kani::unwind(44)]
#[kani::stub(std::backtrace::Backtrace::capture, stub_backtrace)]
#[kani::stub(alloc::fmt::format, stub_format)]
fn c16_score_cursor_decode_window_even() {
  score_cursor_window::<4, 4>()
}

//@ like: c16_score_cursor_decode_window_odd
//@ symbolic: window = the last 4 bytes of the cursor (the returned count's low bytes), any well-formed UTF-8
//@ bounds: length 42; one symbolic window of 4 bytes at offset 38
#[kani::proof]
#[kani::unwind(44)]
#[kani::stub(std::backtrace::Backtrace::capture, stub_backtrace)]
#[kani::stub(alloc::fmt::format, stub_format)]
fn c16_score_cursor_decode_window_tail() {
  score_cursor_window::<38, 4>()
}

//@ props: C16
//@ tier: quick
//@ funcs: api::reader::PaginationCursor::decode
//@ symbolic: every well-formed UTF-8 string of exactly 4 bytes
//@ bounds: length 4 (a wrong length for a score cursor; the length test does not depend on the content)
//@ oracle: wrong-length cursors are rejected with Err, never a panic
#[kani::proof]
#[kani::unwind(8)]
#[kani::stub(std::backtrace::Backtrace::capture, stub_backtrace)]
#[kani::stub(alloc::fmt::format, stub_format)]
fn c16_score_cursor_wrong_length() {
  let b: [u8; 4] = kani::any();
  kani::assume(utf8_ok(&b));
  let r = PaginationCursor::decode(as_str(&b));
  assert!(r.is_err(), "C16: short cursor accepted");
  kani::cover!(b[0] >= 0xF0, "4-byte character");
  std::mem::forget(r);
}

//@ props: C16, C22
//@ tier: quick
//@ funcs: api::reader::char_prefix
//@ symbolic: every well-formed UTF-8 string of exactly 4 bytes; requested prefix length 0..6
//@ bounds: 4 bytes, len <= 6
//@ oracle: no panic (slicing on a char boundary); result is a prefix of the input holding min(len, chars) characters
#[kani::proof]
#[kani::unwind(7)]
fn c22_char_prefix_spec() {
  let b: [u8; 4] = kani::any();
  kani::assume(utf8_ok(&b));
  let len: usize = kani::any();
  kani::assume(len <= 6);
  let s = as_str(&b);
  let p = char_prefix(s, len);
  // number of characters = number of non-continuation bytes
  let mut total = 0usize;
  let mut in_p = 0usize;
  let mut i = 0;
  while i < 4 {
    if b[i] & 0xC0 != 0x80 {
      total += 1;
      if i < p.len() {
        in_p += 1;
      }
    }
    i += 1;
  }
  assert!(p.len() <= 4, "C22: prefix longer than input");
  assert!(p.is_empty() || p.as_ptr() == s.as_ptr(), "C22: char_prefix is not a prefix");
  assert!(p.len() == 4 || b[p.len()] & 0xC0 != 0x80, "C22: prefix ends inside a character");
  let want = if len < total { len } else { total };
  assert!(in_p == want, "C22: char_prefix does not hold min(len, chars) characters");
  kani::cover!(total == 2 && len == 1 && p.len() == 3, "prefix of one 3-byte character");
}

//@ props: C16
//@ tier: quick
//@ funcs: api::reader::wildcard_literal_prefix, api::reader::regex_literal_prefix
//@ symbolic: every well-formed UTF-8 pattern of exactly 4 bytes
//@ bounds: 4 bytes
//@ oracle: no panic; the wildcard literal prefix is a prefix of the pattern without '*' or '?'; the regex literal prefix is never longer than the pattern
#[kani::proof]
#[kani::unwind(7)]
fn c16_pattern_prefixes_any4() {
  let b: [u8; 4] = kani::any();
  kani::assume(utf8_ok(&b));
  let s = as_str(&b);
  let w = wildcard_literal_prefix(s);
  assert!(w.len() <= 4 && w.as_ptr() == s.as_ptr(), "C16: wildcard literal prefix is not a prefix");
  let mut i = 0;
  while i < w.len() {
    assert!(b[i] != b'*' && b[i] != b'?', "C16: wildcard char inside literal prefix");
    i += 1;
  }
  let r = regex_literal_prefix(s);
  assert!(r.len() <= 4, "C16: regex literal prefix longer than the pattern");
  kani::cover!(w.len() == 2 && b[2] == b'*', "wildcard prefix stops at '*'");
  kani::cover!(r.len() == 3 && b[0] == b'\\', "escaped character kept in regex prefix");
  kani::cover!(b[0] >= 0xE0, "multi-byte pattern");
  std::mem::forget(r);
}

// --------------------------------------------------------------------------
// C11: cursor codec
// --------------------------------------------------------------------------

//@ props: C11
//@ tier: quick
//@ funcs: api::reader::PaginationCursor::encode, api::reader::PaginationCursor::decode, api::reader::encode_cursor (score fast path), api::reader::score_sort_key
//@ symbolic: generation, score bits (every f32 incl. NaN payloads and -0), segment ordinal, doc id, returned count
//@ bounds: the fixed 42-character score cursor
//@ oracle: decode(encode(c)) carries the same generation, score bits, segment, doc and returned count when returned <= 50000, and is Err above the cap
#[kani::proof]
#[kani::unwind(44)]
#[kani::stub(std::backtrace::Backtrace::capture, stub_backtrace)]
#[kani::stub(alloc::fmt::format, stub_format)]
fn c11_score_cursor_roundtrip() {
  let generation: u32 = kani::any();
  let bits: u32 = kani::any();
  let segment_ord: u32 = kani::any();
  let doc_id: u32 = kani::any();
  let returned: u32 = kani::any();
  let key = score_sort_key(f32::from_bits(bits), segment_ord, doc_id, SortOrder::Desc);
  let cur = PaginationCursor {
    version: CURSOR_VERSION,
    generation,
    key,
    returned,
  };
  let s = cur.encode();
  assert!(s.len() == CURSOR_HEX_LEN, "C11: encoded cursor has the wrong length");
  let r = PaginationCursor::decode(&s);
  match &r {
    Ok(d) => {
      assert!(returned as usize <= MAX_CURSOR_ADVANCE, "C11: cursor above the advance cap accepted");
      assert!(d.generation == generation, "C11: generation lost in cursor round trip");
      assert!(d.key.score_bits() == Some(bits), "C11: score bits lost in cursor round trip");
      assert!(d.key.segment_ord == segment_ord, "C11: segment lost in cursor round trip");
      assert!(d.key.doc_id == doc_id, "C11: doc id lost in cursor round trip");
      assert!(d.returned == returned, "C11: returned count lost in cursor round trip");
      assert!(d.key.cmp(&cur.key) == std::cmp::Ordering::Equal, "C11: decoded key does not compare equal to the original");
    }
    Err(_) => assert!(returned as usize > MAX_CURSOR_ADVANCE, "C11: own cursor rejected"),
  }
  kani::cover!(r.is_ok() && f32::from_bits(bits).is_nan(), "NaN score round trips");
  kani::cover!(r.is_err(), "over-cap cursor rejected");
  std::mem::forget(r);
  std::mem::forget(s);
  std::mem::forget(cur);
}

fn empty_schema() -> Schema {
  Schema {
    doc_id_field: String::new(),
    analyzers: Vec::new(),
    text_fields: Vec::new(),
    keyword_fields: Vec::new(),
    numeric_fields: Vec::new(),
    nested_fields: Vec::new(),
    #[cfg(feature = "vectors")]
    vector_fields: Vec::new(),
  }
}

//@ props: C11
//@ tier: quick
//@ funcs: api::reader::decode_cursor (score fast path), api::reader::encode_cursor (score fast path), query::sort::SortPlan::from_request (default plan)
//@ symbolic: generation the cursor was issued for, generation of the index it is presented to, score bits, segment, doc, returned
//@ bounds: the fixed 42-character score cursor
//@ oracle: a cursor presented to a different index generation is rejected with Err; to the same generation it yields the same key and count
#[kani::proof]
#[kani::unwind(44)]
#[kani::stub(std::backtrace::Backtrace::capture, stub_backtrace)]
#[kani::stub(alloc::fmt::format, stub_format)]
#[kani::stub(crc32fast::Hasher::internal_new_specialized, stub_crc_specialized)]
fn c11_stale_generation_rejected() {
  let issued: u32 = kani::any();
  let presented: u32 = kani::any();
  let bits: u32 = kani::any();
  let segment_ord: u32 = kani::any();
  let doc_id: u32 = kani::any();
  let returned: u32 = kani::any();
  kani::assume(returned as usize <= MAX_CURSOR_ADVANCE);
  let schema = empty_schema();
  let plan = match SortPlan::from_request(&schema, &[]) {
    Ok(p) => p,
    Err(e) => {
      std::mem::forget(e);
      assert!(false, "default sort plan must build");
      return;
    }
  };
  assert!(plan.is_score_only(), "C10: default sort must be score only");
  assert!(matches!(plan.primary_order(), Some(SortOrder::Desc)), "C10: default sort must be score descending");
  let key = score_sort_key(f32::from_bits(bits), segment_ord, doc_id, SortOrder::Desc);
  let s = match encode_cursor(issued, returned, &key, &plan, true) {
    Ok(s) => s,
    Err(e) => {
      std::mem::forget(e);
      assert!(false, "C11: encode_cursor failed on the score fast path");
      return;
    }
  };
  let r = decode_cursor(&s, presented, &plan, true);
  match &r {
    Ok(st) => {
      assert!(issued == presented, "C11: cursor from another index generation accepted");
      assert!(st.returned == returned, "C11: returned count changed");
      assert!(st.key.cmp(&key) == std::cmp::Ordering::Equal, "C11: cursor key changed");
    }
    Err(_) => assert!(issued != presented, "C11: own cursor rejected"),
  }
  kani::cover!(r.is_ok(), "same generation accepted");
  kani::cover!(r.is_err(), "stale generation rejected");
  std::mem::forget(r);
  std::mem::forget(s);
  std::mem::forget(plan);
  std::mem::forget(schema);
}

fn hit(score_bits: u32, seg: u32, doc: u32) -> RankedHit {
  let score = f32::from_bits(score_bits);
  RankedHit {
    key: score_sort_key(score, seg, doc, SortOrder::Desc),
    score,
    vector_score: None,
    explanation: None,
  }
}

//@ props: C11, C10
//@ tier: quick
//@ funcs: api::reader::push_ranked, api::reader::RankedHit::cmp
//@ symbolic: 4 candidate hits (any score bits, segment in 0..2, distinct doc ids) pushed in order; limit 0..3
//@ bounds: 4 pushes, limit <= 3
//@ oracle: the heap holds exactly min(limit, 4) hits and they are the smallest keys under SortKey::cmp (score desc, segment, doc): no kept hit is worse than a dropped one
#[kani::proof]
#[kani::unwind(6)]
fn c11_push_ranked_keeps_best() {
  let limit: usize = kani::any();
  kani::assume(limit <= 3);
  let bits: [u32; 4] = kani::any();
  let segs: [u32; 4] = kani::any();
  kani::assume(segs[0] < 2 && segs[1] < 2 && segs[2] < 2 && segs[3] < 2);
  let mut heap: BinaryHeap<RankedHit> = BinaryHeap::new();
  let mut i = 0;
  while i < 4 {
    push_ranked(&mut heap, hit(bits[i], segs[i], i as u32), limit);
    i += 1;
  }
  let want = if limit < 4 { limit } else { 4 };
  assert!(heap.len() == want, "C11: push_ranked keeps the wrong number of hits");
  // kept[i] = hit i is still in the heap
  let mut kept = [false; 4];
  for h in heap.iter() {
    kept[h.key.doc_id as usize] = true;
  }
  let mut a = 0;
  while a < 4 {
    let mut b = 0;
    while b < 4 {
      if kept[a] && !kept[b] {
        let ka = score_sort_key(f32::from_bits(bits[a]), segs[a], a as u32, SortOrder::Desc);
        let kb = score_sort_key(f32::from_bits(bits[b]), segs[b], b as u32, SortOrder::Desc);
        assert!(ka.cmp(&kb) == std::cmp::Ordering::Less, "C11: a dropped hit ranks before a kept hit");
      }
      b += 1;
    }
    a += 1;
  }
  kani::cover!(limit == 2 && kept[3] && kept[2], "late better hits replace earlier ones");
  kani::cover!(limit == 0, "limit zero");
  std::mem::forget(heap);
}

// --------------------------------------------------------------------------
// C22: edit distance kernel
// --------------------------------------------------------------------------

fn ref_lev3(a: &[u8], b: &[u8]) -> usize {
  // textbook dynamic programme on a fixed 4x4 table (lengths <= 3)
  let mut d = [[0usize; 4]; 4];
  let mut i = 0;
  while i <= a.len() {
    d[i][0] = i;
    i += 1;
  }
  let mut j = 0;
  while j <= b.len() {
    d[0][j] = j;
    j += 1;
  }
  let mut i = 1;
  while i <= a.len() {
    let mut j = 1;
    while j <= b.len() {
      let cost = if a[i - 1] == b[j - 1] { 0 } else { 1 };
      let mut v = d[i - 1][j] + 1;
      if d[i][j - 1] + 1 < v {
        v = d[i][j - 1] + 1;
      }
      if d[i - 1][j - 1] + cost < v {
        v = d[i - 1][j - 1] + cost;
      }
      d[i][j] = v;
      j += 1;
    }
    i += 1;
  }
  d[a.len()][b.len()]
}

/// One letter of a 4-letter ASCII alphabet, built as an if-then-else over two
/// symbolic bits so that the symbolic executor can see it is ASCII (an
/// `assume(b < 0x80)` is invisible to it and makes every `chars()` length,
/// and with it every vector length, symbolic).
fn letter() -> u8 {
  let hi: bool = kani::any();
  let lo: bool = kani::any();
  if hi {
    if lo {
      b'd'
    } else {
      b'c'
    }
  } else if lo {
    b'b'
  } else {
    b'a'
  }
}

fn lev_check<const LA: usize, const LB: usize>() {
  let mut a = [0u8; LA];
  let mut b = [0u8; LB];
  let mut i = 0;
  while i < LA {
    a[i] = letter();
    i += 1;
  }
  let mut i = 0;
  while i < LB {
    b[i] = letter();
    i += 1;
  }
  let m: usize = kani::any();
  kani::assume(m <= 3);
  let got = bounded_levenshtein(as_str(&a), as_str(&b), m);
  let want = ref_lev3(&a, &b);
  match got {
    Some(d) => {
      assert!(d == want, "C22: bounded_levenshtein returns a wrong distance");
      assert!(d <= m, "C22: bounded_levenshtein exceeds max_edits");
      let w = distance_weight(d);
      assert!(w > 0.0 && w <= 1.0, "C22: distance weight out of range");
      assert!(distance_weight(d + 1) < w, "C22: distance weight not decreasing");
    }
    None => assert!(want > m, "C22: term within max_edits rejected"),
  }
  kani::cover!(got.is_some(), "within max_edits");
  kani::cover!(got.is_none(), "beyond max_edits");
}

//@ props: C22, C16
//@ tier: quick
//@ funcs: api::reader::bounded_levenshtein, api::reader::distance_weight
//@ symbolic: two strings of exactly 3 characters each over the alphabet {a,b,c,d} (every one of the 4^6 contents), max_edits 0..3
//@ bounds: 3 x 3 characters, max_edits <= 3
//@ oracle: Some(d) iff the textbook Levenshtein distance d <= max_edits; no panic; distance_weight is in (0,1] and strictly decreasing
#[kani::proof]
#[kani::unwind(6)]
fn c22_levenshtein_3x3() {
  lev_check::<3, 3>()
}

//@ like: c22_levenshtein_3x3
//@ symbolic: strings of 2 and 3 characters over {a,b,c,d}, max_edits 0..3
//@ bounds: 2 x 3 characters
#[kani::proof]
#[kani::unwind(6)]
fn c22_levenshtein_2x3() {
  lev_check::<2, 3>()
}

//@ like: c22_levenshtein_3x3
//@ symbolic: strings of 3 and 1 characters over {a,b,c,d}, max_edits 0..3
//@ bounds: 3 x 1 characters
#[kani::proof]
#[kani::unwind(6)]
fn c22_levenshtein_3x1() {
  lev_check::<3, 1>()
}

//@ like: c22_levenshtein_3x3
//@ symbolic: the empty string against a string of 2 characters over {a,b,c,d}, max_edits 0..3
//@ bounds: 0 x 2 characters
#[kani::proof]
#[kani::unwind(6)]
fn c22_levenshtein_0x2() {
  lev_check::<0, 2>()
}

//@ props: C22, C16
//@ tier: thorough
//@ funcs: api::reader::bounded_levenshtein
//@ symbolic: two well-formed UTF-8 strings of exactly 4 bytes each (any mix of 1-4 byte characters), max_edits 0..2
//@ bounds: 4 bytes per string
//@ oracle: no panic; symmetric (d(a,b) = d(b,a)); Some(0) iff the strings are equal
#[kani::proof]
#[kani::unwind(7)]
fn c22_levenshtein_utf8_symmetry() {
  let a: [u8; 4] = kani::any();
  let b: [u8; 4] = kani::any();
  kani::assume(utf8_ok(&a) && utf8_ok(&b));
  let m: usize = kani::any();
  kani::assume(m <= 2);
  let ab = bounded_levenshtein(as_str(&a), as_str(&b), m);
  let ba = bounded_levenshtein(as_str(&b), as_str(&a), m);
  assert!(ab == ba, "C22: edit distance is not symmetric");
  let same = a[0] == b[0] && a[1] == b[1] && a[2] == b[2] && a[3] == b[3];
  assert!((ab == Some(0)) == same, "C22: distance 0 must mean equal strings");
  kani::cover!(ab == Some(1) && a[0] >= 0xC2, "multi-byte substitution counted as one edit");
}

// --------------------------------------------------------------------------
// C19: rescore score combination
// --------------------------------------------------------------------------

//@ props: C19
//@ tier: quick
//@ funcs: api::reader::combine_rescore_scores
//@ symbolic: original and rescore scores (every finite f32)
//@ assumes: scores are finite (non-finite scores are dropped before rescoring)
//@ bounds: all five modes
//@ oracle: total/sum = a+b, multiply = a*b, max = larger, min = smaller (bit-exact)
#[kani::proof]
fn c19_combine_rescore_modes() {
  let a: f32 = kani::any();
  let b: f32 = kani::any();
  kani::assume(a.is_finite() && b.is_finite());
  let t = combine_rescore_scores(RescoreMode::Total, a, b);
  let s = combine_rescore_scores(RescoreMode::Sum, a, b);
  let m = combine_rescore_scores(RescoreMode::Multiply, a, b);
  let mx = combine_rescore_scores(RescoreMode::Max, a, b);
  let mn = combine_rescore_scores(RescoreMode::Min, a, b);
  assert!(t.to_bits() == (a + b).to_bits(), "C19: total is not original + rescore");
  assert!(s.to_bits() == (a + b).to_bits(), "C19: sum is not original + rescore");
  assert!(m.to_bits() == (a * b).to_bits(), "C19: multiply is not original * rescore");
  assert!(mx == if a > b { a } else { b }, "C19: max is not the larger score");
  assert!(mn == if a < b { a } else { b }, "C19: min is not the smaller score");
  kani::cover!(a > b && mx == a && mn == b, "max/min distinguish");
}
