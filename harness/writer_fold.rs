//! Harness attached as a child module of searchlite-core/src/api/writer.rs: the fold
//! of queued operations inside `IndexWriter::commit` (C04 mechanism "commit folds
//! queued operations: last add per id wins, delete removes, old copies are
//! tombstoned"), cut from the current source as a slice and run over the finite-map
//! model of /verif/models.
//@@ crate: searchlite-core
//@@ attach: searchlite-core/src/api/writer.rs
//@@ slice: commit_fold
use super::*;
use crate::verif_models::FoldMap as ModelMap;

// Payload mirrors (module-level items shadow the glob-imported types for the slice
// appended below): the fold never looks inside a document id, a segment name or a
// document - it only compares ids / names for equality and clones, moves and drops the
// values.  The real types (`String` keys, `Document` = BTreeMap<String, serde_json::Value>)
// do not get through CBMC here: cloning a document explores `clone_subtree` recursively
// (700 s without leaving it), and cloning a `String` read out of a symbolic enum variant
// allocates and copies a symbolic number of bytes (SAT back end out of memory at 24 GB).
// `Key` is an opaque id compared by equality; `Document` carries a version tag, which
// also lets the oracle check WHICH version of a document survives; `PendingOp` and
// `DocAddress` mirror the writer's types field for field.
#[derive(Clone, Copy, Debug, PartialEq, Eq, Default)]
struct KeyStr(u8);
#[derive(Clone, Copy, Debug, PartialEq, Eq, Default)]
struct Key(KeyStr);
#[allow(non_camel_case_types)]
type String = Key;
// `&str` views of an id (as_str(), as_deref(), deref coercion) are views of the same
// opaque key, so that a refactoring of the fold that borrows ids still compiles
// against the mirrors.
#[allow(non_camel_case_types)]
type str = KeyStr;
impl Key {
  fn as_str(&self) -> &str {
    &self.0
  }
}
impl std::ops::Deref for Key {
  type Target = KeyStr;
  fn deref(&self) -> &KeyStr {
    &self.0
  }
}
fn key(b: u8) -> Key {
  Key(KeyStr(b))
}
// `vec![..]` inside the sliced statements builds the inline vector model.
#[allow(unused_macros)]
macro_rules! vec {
  ($($x:expr),* $(,)?) => {{
    let mut s = crate::verif_models::SmallSeq::new();
    $(s.push($x);)*
    s
  }};
}

#[derive(Clone, Debug)]
struct Document {
  version: u8,
}

#[derive(Clone, Debug)]
enum PendingOp {
  Add { doc_id: String, doc: Document },
  Delete { doc_id: String },
}

#[derive(Clone, Debug)]
struct DocAddress {
  segment_id: String,
  doc_id: DocId,
}

fn id(is_a: bool) -> String {
  if is_a {
    key(b'a')
  } else {
    key(b'b')
  }
}

fn seg() -> String {
  key(b's')
}

fn seg2() -> String {
  key(b't')
}

fn any_op(version: u8) -> (PendingOp, bool, bool) {
  let add: bool = kani::any();
  let is_a: bool = kani::any();
  let op = if add {
    PendingOp::Add {
      doc_id: id(is_a),
      doc: Document { version },
    }
  } else {
    PendingOp::Delete { doc_id: id(is_a) }
  };
  (op, add, is_a)
}

/// Specification for one id: (touched by any op, last op on it is an add, position of that last op).
fn last_writer(ops: &[(bool, bool); 3], want_a: bool) -> (bool, bool, u8) {
  let mut touched = false;
  let mut last_add = false;
  let mut at = 0u8;
  let mut i = 0;
  while i < 3 {
    let (add, is_a) = ops[i];
    if is_a == want_a {
      touched = true;
      last_add = add;
      at = i as u8;
    }
    i += 1;
  }
  (touched, last_add, at)
}

fn count_in(v: Option<&crate::verif_models::SmallSeq<DocId>>, d: DocId) -> usize {
  match v {
    None => 0,
    Some(v) => {
      let mut n = 0;
      let mut i = 0;
      while i < crate::verif_models::SMALL_CAP {
        if v.get(i) == Some(d) {
          n += 1;
        }
        i += 1;
      }
      n
    }
  }
}

//@ props: C04
//@ tier: quick
//@ funcs: api::writer::IndexWriter::commit (slice: the fold of pending_ops into pending_new / tombstones / live_docs)
//@ symbolic: a queue of three operations, each an add or a delete (symbolic) of id "a" or "b" (symbolic); whether "a" and "b" are live before the commit (symbolic; live copies sit in segment "s" at ordinals 1 and 2)
//@ bounds: 3 queued operations, 2 ids, 1 segment; document payload = a version tag
//@ oracle: last writer wins - an id is in the set of new documents iff the last queued operation on it is an add, and then with the version of that last add; a live copy is removed from the live map and tombstoned exactly once iff any queued operation touches its id; untouched live copies stay; nothing else is tombstoned
//@ assumes: std HashMap / BTreeMap replaced by the constant-index finite-map model (FoldMap) and the tombstone Vec<DocId> by the inline vector model (SmallSeq) of /verif/models; document ids / segment names (String), Document, PendingOp and DocAddress replaced by payload mirrors of the same shape (the fold only compares ids for equality and clones / moves the values); slice extraction by anchor lines
//@ outside: everything else in the property - visibility to readers, rollback, several writer handles, stale live-map reload, stored projection, compaction, reopen
#[kani::proof]
#[kani::unwind(8)]
fn c04_commit_fold_last_writer_wins() {
  fold_case(false);
}

//@ like: c04_commit_fold_last_writer_wins
//@ tier: thorough
//@ symbolic: as c04_commit_fold_last_writer_wins, with the live copy of "b" in a second segment "t" at the SAME ordinal as "a" has in "s"
//@ bounds: 3 queued operations, 2 ids, 2 segments
#[kani::proof]
#[kani::unwind(8)]
fn c04_commit_fold_two_segments() {
  fold_case(true);
}

fn id3(which: u8) -> String {
  match which {
    0 => key(b'a'),
    1 => key(b'b'),
    _ => key(b'c'),
  }
}

//@ props: C04
//@ tier: quick
//@ funcs: api::writer::IndexWriter::commit (slice: the fold of pending_ops into pending_new / tombstones / live_docs)
//@ symbolic: a queue of three operations, each an add or a delete (symbolic) of id "a", "b" or "c" (symbolic); all three ids are live before the commit: "a" and "c" in segment "s" (ordinals 1 and 3), "b" in segment "t" (ordinal 1)
//@ bounds: 3 queued operations, 3 ids, 2 segments
//@ oracle: every live copy touched by a queued operation is tombstoned exactly once under its own segment (whatever the order in which the batch visits the segments), untouched copies are not; last writer wins for the documents to write
//@ assumes: as c04_commit_fold_last_writer_wins
//@ outside: as c04_commit_fold_last_writer_wins
#[kani::proof]
#[kani::unwind(8)]
fn c04_commit_fold_three_ids_two_segments() {
  let mut adds = [false; 3];
  let mut ids = [0u8; 3];
  let mut ops_v: [Option<PendingOp>; 3] = [None, None, None];
  let mut i = 0;
  while i < 3 {
    let add: bool = kani::any();
    let which: u8 = kani::any();
    kani::assume(which < 3);
    adds[i] = add;
    ids[i] = which;
    ops_v[i] = Some(if add {
      PendingOp::Add { doc_id: id3(which), doc: Document { version: i as u8 } }
    } else {
      PendingOp::Delete { doc_id: id3(which) }
    });
    i += 1;
  }
  let ops = [ops_v[0].take().unwrap(), ops_v[1].take().unwrap(), ops_v[2].take().unwrap()];
  let mut live: ModelMap<String, DocAddress> = ModelMap::new();
  live.insert(id3(0), DocAddress { segment_id: seg(), doc_id: 1 });
  live.insert(id3(1), DocAddress { segment_id: seg2(), doc_id: 1 });
  live.insert(id3(2), DocAddress { segment_id: seg(), doc_id: 3 });
  let (pending_new, tombstones) = slice_commit_fold(&ops, &mut live);
  let (ts, tt) = (tombstones.get(&seg()), tombstones.get(&seg2()));
  let mut w = 0u8;
  while w < 3 {
    let touched = ids[0] == w || ids[1] == w || ids[2] == w;
    let last_add = if ids[2] == w { adds[2] } else if ids[1] == w { adds[1] } else { adds[0] };
    let got = match w {
      0 => count_in(ts, 1),
      1 => count_in(tt, 1),
      _ => count_in(ts, 3),
    };
    assert!(got == touched as usize, "C04: a replaced or deleted live copy is not tombstoned exactly once under its segment (three ids, two segments)");
    assert!(live.contains_key(&id3(w)) == !touched, "C04: a replaced or deleted live copy stays live (or an untouched one is dropped)");
    assert!(pending_new.contains_key(&id3(w)) == (touched && last_add), "C04: the set of documents to write does not follow last-writer-wins for an id");
    w += 1;
  }
  kani::cover!(ids[0] == 0 && ids[1] == 1 && ids[2] == 2, "the batch visits segment s, then t, then s again");
  std::mem::forget(pending_new);
  std::mem::forget(tombstones);
  std::mem::forget(live);
  std::mem::forget(ops);
}

fn fold_case(two_segments: bool) {
  let (b_seg, b_ord) = if two_segments { (seg2(), 1) } else { (seg(), 2) };
  let (o0, a0, i0) = any_op(0);
  let (o1, a1, i1) = any_op(1);
  let (o2, a2, i2) = any_op(2);
  let ops = [o0, o1, o2];
  let spec = [(a0, i0), (a1, i1), (a2, i2)];
  let live_a: bool = kani::any();
  let live_b: bool = kani::any();
  let mut live: ModelMap<String, DocAddress> = ModelMap::new();
  if live_a {
    live.insert(id(true), DocAddress { segment_id: seg(), doc_id: 1 });
  }
  if live_b {
    live.insert(id(false), DocAddress { segment_id: b_seg, doc_id: b_ord });
  }
  let (pending_new, tombstones) = slice_commit_fold(&ops, &mut live);
  let (ka, kb, ks) = (id(true), id(false), seg());
  let (touched_a, last_add_a, at_a) = last_writer(&spec, true);
  let (touched_b, last_add_b, at_b) = last_writer(&spec, false);
  assert!(pending_new.contains_key(&ka) == (touched_a && last_add_a), "C04: the set of documents to write does not follow last-writer-wins for an id");
  assert!(pending_new.contains_key(&kb) == (touched_b && last_add_b), "C04: the set of documents to write does not follow last-writer-wins for an id");
  if let Some(d) = pending_new.get(&ka) {
    assert!(d.version == at_a, "C04: an earlier version of a document is written instead of the last one added");
  }
  if let Some(d) = pending_new.get(&kb) {
    assert!(d.version == at_b, "C04: an earlier version of a document is written instead of the last one added");
  }
  assert!(pending_new.len() == (touched_a && last_add_a) as usize + (touched_b && last_add_b) as usize, "C04: a document that was not added is written");
  assert!(live.contains_key(&ka) == (live_a && !touched_a), "C04: a replaced or deleted live copy stays live (or an untouched one is dropped)");
  assert!(live.contains_key(&kb) == (live_b && !touched_b), "C04: a replaced or deleted live copy stays live (or an untouched one is dropped)");
  let t = tombstones.get(&ks);
  let tb = tombstones.get(&b_seg);
  let (c1, c2) = (count_in(t, 1), count_in(tb, b_ord));
  if two_segments {
    assert!(count_in(t, 2) == 0 && count_in(tb, 2) == 0, "C04: an ordinal that belongs to no live copy is tombstoned");
    assert!(t.map(|l| l.len()).unwrap_or(0) == c1 && tb.map(|l| l.len()).unwrap_or(0) == c2, "C04: a tombstone is recorded under the wrong segment");
  }
  assert!(c1 == (live_a && touched_a) as usize, "C04: a replaced or deleted live copy is not tombstoned exactly once (first id)");
  assert!(c2 == (live_b && touched_b) as usize, "C04: a replaced or deleted live copy is not tombstoned exactly once (second id)");
  kani::cover!(live_a && touched_a && !last_add_a, "a live document is deleted");
  kani::cover!(live_a && a0 && i0 && !a1 && i1 && a2 && i2, "add, delete, add of one live id");
  kani::cover!(!live_b && touched_b && !last_add_b, "delete of an id that was never committed");
  std::mem::forget(pending_new);
  std::mem::forget(tombstones);
  std::mem::forget(live);
  std::mem::forget(ops);
}
