//! Harnesses attached as a child module of searchlite-core/src/api/reader.rs:
//! ordering of completion suggestions (C22).
//@@ crate: searchlite-core
//@@ attach: searchlite-core/src/api/reader.rs
//@@ slice: suggest_option_order
use super::*;

fn opt(score: f32, text: u8) -> SuggestOption {
  let doc_freq: u64 = kani::any();
  let mut v = Vec::with_capacity(1);
  v.push(text);
  SuggestOption {
    text: unsafe { String::from_utf8_unchecked(v) },
    score,
    doc_freq,
  }
}

fn letter() -> u8 {
  let b: u8 = kani::any();
  kani::assume(b < 0x80);
  b
}

fn fin() -> f32 {
  let s: f32 = kani::any();
  kani::assume(s.is_finite() && s >= 0.0);
  s
}

//@ props: C22
//@ tier: quick
//@ funcs: api::reader::IndexReader::completion_suggest (source slice: the comparator closure passed to sort_by)
//@ symbolic: three options with any finite non-negative score, a one-byte ASCII text and any doc_freq
//@ bounds: 3 options, 1-letter texts
//@ oracle: options are ordered by score descending, then text ascending; the comparator is antisymmetric and transitive (a strict weak order, so the sorted output and its truncation to `size` are deterministic)
//@ outside: candidate collection (hash map), doc_freq, scan cap, segment independence
#[kani::proof]
#[kani::unwind(4)]
fn c22_suggest_option_order() {
  let (ta, tb, tc) = (letter(), letter(), letter());
  let (sa, sb, sc) = (fin(), fin(), fin());
  let (a, b, c) = (opt(sa, ta), opt(sb, tb), opt(sc, tc));
  let ab = slice_suggest_option_order(&a, &b);
  let want = if sa > sb {
    Ordering::Less
  } else if sa < sb {
    Ordering::Greater
  } else if ta < tb {
    Ordering::Less
  } else if ta > tb {
    Ordering::Greater
  } else {
    Ordering::Equal
  };
  assert!(ab == want, "C22: completion options are not ordered by score descending then text");
  assert!(slice_suggest_option_order(&b, &a) == ab.reverse(), "C22: option comparator is not antisymmetric");
  let bc = slice_suggest_option_order(&b, &c);
  let ac = slice_suggest_option_order(&a, &c);
  if ab != Ordering::Greater && bc != Ordering::Greater {
    assert!(ac != Ordering::Greater, "C22: option comparator is not transitive");
  }
  kani::cover!(sa == sb && ta < tb, "score tie broken by text");
  kani::cover!(sa > sb && ta > tb, "higher score wins over text order");
  std::mem::forget(a);
  std::mem::forget(b);
  std::mem::forget(c);
}
