//! Harnesses attached as a child module of searchlite-core/src/query/planner.rs.
//@@ crate: searchlite-core
//@@ attach: searchlite-core/src/query/planner.rs
use super::*;
use crate::verif_support::*;

fn leaves3(a: usize, b: usize, c: usize) -> Vec<ScoreExpr> {
  let mut v = Vec::with_capacity(3);
  v.push(ScoreExpr::Leaf(a));
  v.push(ScoreExpr::Leaf(b));
  v.push(ScoreExpr::Leaf(c));
  v
}

fn score() -> f32 {
  let s: f32 = kani::any();
  kani::assume(s >= 0.0 && s <= 1000.0);
  s
}

//@ props: C10, C09
//@ tier: quick
//@ funcs: query::planner::ScoreExpr::evaluate (Leaf, Sum, DisMax), ScorePlan::evaluate
//@ symbolic: three leaf scores in [0, 1000] (ties and zeros included), the dis_max tie breaker in [0, 1]
//@ bounds: one Sum or DisMax node over 3 leaves (depth 2); a leaf index outside the score vector
//@ oracle: sum = s0+s1+s2; dis_max = max + tie_breaker * (sum - max) - so clauses that tie with the best one still contribute; a leaf without a score contributes 0; an empty dis_max scores 0
#[kani::proof]
#[kani::unwind(5)]
fn c10_score_expr_sum_and_dismax() {
  let s = [score(), score(), score()];
  let tie: f32 = kani::any();
  kani::assume(tie >= 0.0 && tie <= 1.0);
  let sum = ScoreExpr::Sum(leaves3(0, 1, 2));
  let want_sum = 0.0_f32 + s[0] + s[1] + s[2];
  assert!(sum.evaluate(&s) == want_sum, "C10: Sum score is not the sum of its clauses");
  let dis = ScoreExpr::DisMax {
    children: leaves3(0, 1, 2),
    tie_breaker: tie,
  };
  let mut max = s[0];
  if s[1] > max {
    max = s[1];
  }
  if s[2] > max {
    max = s[2];
  }
  let want = max + tie * (want_sum - max);
  let got = dis.evaluate(&s);
  assert!(got == want, "C10: dis_max score is not max + tie_breaker * (sum - max)");
  assert!(got >= max, "C10: dis_max score below its best clause");
  let missing = ScoreExpr::Sum(leaves3(0, 7, 2));
  assert!(missing.evaluate(&s) == 0.0_f32 + s[0] + 0.0 + s[2], "C10: a leaf without a score must contribute 0");
  let empty = ScoreExpr::DisMax {
    children: Vec::new(),
    tie_breaker: tie,
  };
  assert!(empty.evaluate(&s) == 0.0, "C10: empty dis_max must score 0");
  let plan = ScorePlan {
    root: ScoreExpr::Leaf(1),
    leaf_count: 3,
  };
  assert!(plan.evaluate(&s) == s[1], "C10: a single-leaf plan returns the leaf score");
  kani::cover!(s[0] == s[1] && s[0] > s[2] && tie > 0.0 && s[0] > 0.0, "two clauses tie for the maximum");
  kani::cover!(tie == 0.0 && got == max, "tie breaker 0 keeps only the best clause");
  std::mem::forget(sum);
  std::mem::forget(dis);
  std::mem::forget(missing);
  std::mem::forget(empty);
  std::mem::forget(plan);
}

fn okv<T>(r: Result<T>) -> Option<T> {
  match r {
    Ok(v) => Some(v),
    Err(e) => {
      std::mem::forget(e);
      None
    }
  }
}

//@ props: C16, C07
//@ tier: quick
//@ funcs: query::planner::validate_boost, validate_tie_breaker, resolve_minimum_should_match (count form)
//@ symbolic: boost and tie_breaker as any f32 bit pattern (NaN, infinities, negative zero) or absent; minimum_should_match count (any usize) or absent; number of terms 0..1000; operator and/or
//@ bounds: the count form of minimum_should_match (percentages are parsed from strings: outside)
//@ oracle: no panic; boost accepted iff finite and not negative (default 1); tie_breaker accepted iff in [0,1] (default 0, NaN...); required terms = min(count, terms), defaulting to all terms for `and` and 1 for `or`, None when there are no terms
#[kani::proof]
#[kani::unwind(4)]
#[kani::stub(std::backtrace::Backtrace::capture, stub_backtrace)]
#[kani::stub(alloc::fmt::format, stub_format)]
fn c16_request_number_validation() {
  let b: Option<f32> = if kani::any() { Some(f32::from_bits(kani::any())) } else { None };
  match okv(validate_boost(&b)) {
    Some(v) => {
      assert!(v.is_finite() && !v.is_sign_negative(), "C16: invalid boost accepted");
      assert!(v.to_bits() == b.unwrap_or(1.0).to_bits(), "C16: boost changed by validation");
    }
    None => {
      let x = b.unwrap_or(1.0);
      assert!(!x.is_finite() || x.is_sign_negative(), "C16: valid boost rejected");
    }
  }
  let t: Option<f32> = if kani::any() { Some(f32::from_bits(kani::any())) } else { None };
  if let Some(v) = okv(validate_tie_breaker(&t)) {
    assert!(v.is_nan() || (v >= 0.0 && v <= 1.0), "C16: tie_breaker outside [0,1] accepted");
  }
  let terms: usize = kani::any();
  kani::assume(terms <= 1000);
  let is_and: bool = kani::any();
  let spec = if kani::any() { Some(MinimumShouldMatch::Value(kani::any())) } else { None };
  let op = if is_and { MatchOperator::And } else { MatchOperator::Or };
  let got = okv(resolve_minimum_should_match(&spec, terms, op));
  let want = if terms == 0 {
    None
  } else {
    match &spec {
      Some(MinimumShouldMatch::Value(v)) => Some(if *v < terms { *v } else { terms }),
      _ => Some(if is_and { terms } else { 1 }),
    }
  };
  assert!(got == Some(want), "C07: minimum_should_match (count form) resolved to the wrong number of required terms");
  kani::cover!(terms == 3 && is_and && spec.is_none(), "and-operator default");
  kani::cover!(matches!(&spec, Some(MinimumShouldMatch::Value(v)) if *v > terms) && terms > 0, "count clamped to the number of terms");
  std::mem::forget(spec);
}
