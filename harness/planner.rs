//! Harnesses attached as a child module of searchlite-core/src/query/planner.rs.
//@@ crate: searchlite-core
//@@ attach: searchlite-core/src/query/planner.rs
//@@ slice: dismax_combine
use super::*;
use crate::verif_support::*;

fn score() -> f32 {
  // integer-valued scores 0..255 (exactly representable; ties are frequent)
  let s: u8 = kani::any();
  s as f32
}

fn dismax_case(s: &[f32; 3], tie: f32) {
  let got = slice_dismax_combine(s, &tie);
  let sum = 0.0_f32 + s[0] + s[1] + s[2];
  let mut max = s[0];
  if s[1] > max {
    max = s[1];
  }
  if s[2] > max {
    max = s[2];
  }
  let want = max + tie * (sum - max);
  assert!(got == want, "C10: dis_max score is not max + tie_breaker * (sum - max)");
  assert!(got >= max, "C10: dis_max score below its best clause");
}

//@ props: C10, C09
//@ tier: quick
//@ funcs: query::planner::ScoreExpr::evaluate (source slice: body of the DisMax arm, child scores as input)
//@ symbolic: three clause scores (integer-valued 0..255, so ties and zeros are frequent); tie breakers 0, 0.25, 0.5 and 1
//@ bounds: 3 clauses; concrete tie breakers (an equivalence check of two symbolic float multipliers does not finish); also the empty clause list
//@ oracle: dis_max = max + tie_breaker * (sum - max), so clauses that tie with the best one still contribute; never below the best clause; an empty dis_max scores 0
//@ outside: the recursive evaluation of children (Vec<ScoreExpr> on the heap: CBMC explores every variant at every level, > 15 min), Sum nodes, the twin implementation in api/reader.rs evaluate_compiled_score
#[kani::proof]
#[kani::unwind(5)]
fn c10_dismax_score_formula() {
  let s = [score(), score(), score()];
  dismax_case(&s, 0.0);
  dismax_case(&s, 0.25);
  dismax_case(&s, 0.5);
  dismax_case(&s, 1.0);
  let none: [f32; 0] = [];
  assert!(slice_dismax_combine(&none, &0.5) == 0.0, "C10: empty dis_max must score 0");
  kani::cover!(s[0] == s[1] && s[0] > s[2] && s[0] > 0.0, "two clauses tie for the maximum");
  kani::cover!(s[0] > s[1] && s[1] > s[2], "strictly decreasing scores");
}

fn okv<T>(r: Result<T>) -> Option<T> {
  match r {
    Ok(v) => Some(v),
    Err(e) => {
      std::mem::forget(e);
      None
    }
  }
}

//@ props: C16
//@ tier: quick
//@ funcs: query::planner::validate_boost, validate_tie_breaker
//@ symbolic: boost and tie_breaker as any f32 bit pattern (NaN, infinities, negative zero) or absent
//@ bounds: one value each
//@ oracle: no panic; boost accepted iff finite and not negative (default 1), returned unchanged; an accepted tie_breaker is in [0,1] or NaN
#[kani::proof]
#[kani::unwind(4)]
#[kani::stub(std::backtrace::Backtrace::capture, stub_backtrace)]
#[kani::stub(alloc::fmt::format, stub_format)]
fn c16_request_number_validation() {
  let b: Option<f32> = if kani::any() { Some(f32::from_bits(kani::any())) } else { None };
  match okv(validate_boost(&b)) {
    Some(v) => {
      assert!(v.is_finite() && !v.is_sign_negative(), "C16: invalid boost accepted");
      assert!(v.to_bits() == b.unwrap_or(1.0).to_bits(), "C16: boost changed by validation");
    }
    None => {
      let x = b.unwrap_or(1.0);
      assert!(!x.is_finite() || x.is_sign_negative(), "C16: valid boost rejected");
    }
  }
  let t: Option<f32> = if kani::any() { Some(f32::from_bits(kani::any())) } else { None };
  if let Some(v) = okv(validate_tie_breaker(&t)) {
    assert!(v.is_nan() || (v >= 0.0 && v <= 1.0), "C16: tie_breaker outside [0,1] accepted");
  }
  kani::cover!(b.is_none(), "default boost");
  kani::cover!(matches!(t, Some(v) if v > 1.0), "tie breaker above 1 rejected");
}

//@ props: C07, C16
//@ tier: thorough
//@ funcs: query::planner::resolve_minimum_should_match (count form)
//@ symbolic: minimum_should_match count (any usize) or absent; number of terms 0..1000; operator and/or
//@ bounds: the count form of minimum_should_match (percentages are parsed from strings: outside)
//@ oracle: no panic; required terms = min(count, terms), defaulting to all terms for `and` and 1 for `or`, None when there are no terms
#[kani::proof]
#[kani::unwind(4)]
#[kani::stub(std::backtrace::Backtrace::capture, stub_backtrace)]
#[kani::stub(alloc::fmt::format, stub_format)]
fn c07_minimum_should_match_count_form() {
  let terms: usize = kani::any();
  kani::assume(terms <= 1000);
  let is_and: bool = kani::any();
  let spec = if kani::any() { Some(MinimumShouldMatch::Value(kani::any())) } else { None };
  let op = if is_and { MatchOperator::And } else { MatchOperator::Or };
  let got = okv(resolve_minimum_should_match(&spec, terms, op));
  let want = if terms == 0 {
    None
  } else {
    match &spec {
      Some(MinimumShouldMatch::Value(v)) => Some(if *v < terms { *v } else { terms }),
      _ => Some(if is_and { terms } else { 1 }),
    }
  };
  assert!(got == Some(want), "C07: minimum_should_match (count form) resolved to the wrong number of required terms");
  kani::cover!(terms == 3 && is_and && spec.is_none(), "and-operator default");
  kani::cover!(matches!(&spec, Some(MinimumShouldMatch::Value(v)) if *v > terms) && terms > 0, "count clamped to the number of terms");
  std::mem::forget(spec);
}
