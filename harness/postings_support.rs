//! Child module of searchlite-core/src/index/postings.rs: lets other harness
//! modules build a `PostingsReader` from entries (its `data` field is private and
//! `from_entries_for_test` exists only under cfg(test)).  Block metadata is left
//! empty so that `wand::build_block_meta` (real code) computes it.
//@@ crate: searchlite-core
//@@ attach: searchlite-core/src/index/postings.rs
use super::*;

pub(crate) fn reader_from(entries: Vec<PostingEntry>, max_tf: f32, block_size: usize) -> PostingsReader {
  PostingsReader {
    data: entries,
    max_tf,
    block_max_doc_ids: Vec::new(),
    block_max_tfs: Vec::new(),
    block_size,
  }
}
