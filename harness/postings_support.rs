//! Child module of searchlite-core/src/index/postings.rs: lets other harness
//! modules build a `PostingsReader` from entries (its `data` field is private and
//! `from_entries_for_test` exists only under cfg(test)).  Block metadata is left
//! empty so that `wand::build_block_meta` (real code) computes it.
//@@ crate: searchlite-core
//@@ attach: searchlite-core/src/index/postings.rs
use super::*;

pub(crate) fn reader_from(entries: Vec<PostingEntry>, max_tf: f32, block_size: usize) -> PostingsReader {
  PostingsReader {
    data: entries,
    max_tf,
    block_max_doc_ids: Vec::new(),
    block_max_tfs: Vec::new(),
    block_size,
  }
}

/// Same, but with the per-block metadata a stored posting list carries (last doc id and
/// maximum term frequency of every `stored_block` postings), as `PostingsReader::read_at`
/// and the postings writer produce it.  Entries: exactly 4.
pub(crate) fn reader_with_stored_blocks(entries: Vec<PostingEntry>, max_tf: f32, stored_block: usize) -> PostingsReader {
  let mut block_max_doc_ids = Vec::with_capacity(4);
  let mut block_max_tfs = Vec::with_capacity(4);
  let mut i = 0;
  while i < 4 {
    let mut end = i + stored_block;
    if end > 4 {
      end = 4;
    }
    let mut tf_max = 0.0_f32;
    let mut j = i;
    while j < end {
      let tf = entries[j].term_freq as f32;
      if tf > tf_max {
        tf_max = tf;
      }
      j += 1;
    }
    block_max_doc_ids.push(entries[end - 1].doc_id);
    block_max_tfs.push(tf_max);
    i = end;
  }
  PostingsReader {
    data: entries,
    max_tf,
    block_max_doc_ids,
    block_max_tfs,
    block_size: stored_block,
  }
}
